"""TrajectoryCalc._init_trajectory: the per-shot state is re-derived from the shot at every public call
(C01 initial data, C05 stability, C09 curve/table/BC, C10 history independence, C17 launch velocity)."""
import py_ballisticcalc.trajectory_calc._trajectory_calc as tc

from pyvc.contract import contract, Real, Obj, Built, Rec, Const
from .shapes import shot_shape, config_shape, POINTS
from .drag import PAR_K, LINE0

TC = 'py_ballisticcalc/trajectory_calc/_trajectory_calc.py'
SF = 'verif:contracts/specfn.py'

CALC = Built(tc.TrajectoryCalc, config_shape(), used_=True)


def state_clauses(c, s):
    """clauses saying that calculator c holds exactly the per-shot state derived from shot s"""
    dm = f'{s}.ammo.dm'
    tbl = f'{dm}.drag_table'
    ang = f'(raw({s}.weapon.zero_elevation) + raw({s}.relative_angle))'
    P = ('C09',)
    return [
        dict(label='bc-and-table-are-the-shots', props=('C09', 'C10'),
             src=f'{c}._bc == {dm}.BC and same_object({c}._table_data, {tbl})'),
        dict(label='curve-first-entry-is-line-through-first-two-table-points', props=('C09', 'C10'),
             src=LINE0.format(c=f'{c}._curve').replace('data_points', tbl)),
        dict(label='curve-entry-k-interpolates-table-points-k-1..k+1', props=('C09', 'C10'),
             src=f'len({c}._curve) == len({tbl}) and forall(1, len({tbl}) - 1, lambda k: ' +
                 PAR_K.format(c=f'{c}._curve').replace('data_points', tbl) + ')'),
        dict(label='mach-list-is-the-tables-mach-column', props=('C09', 'C10'),
             src=f'len({c}._TrajectoryCalc__mach_list) == len({tbl}) and forall(0, len({tbl}), lambda k: '
                 f'{c}._TrajectoryCalc__mach_list[k] == {tbl}[k].Mach)'),
        dict(label='angles-sight-height-cant-altitude', props=('C01', 'C03', 'C10'),
             src=f'{c}.look_angle == raw({s}.look_angle) and '
                 f'{c}.barrel_elevation == raw({s}.look_angle) + math.cos(raw({s}.cant_angle)) * {ang} and '
                 f'{c}.barrel_azimuth == math.sin(raw({s}.cant_angle)) * {ang} and '
                 f'{c}.sight_height == raw({s}.weapon.sight_height) / 12 and '
                 f'{c}.cant_cosine == math.cos(raw({s}.cant_angle)) and {c}.cant_sine == math.sin(raw({s}.cant_angle)) and '
                 f'{c}.alt0 == raw({s}.atmo._altitude) / 12'),
        dict(label='bullet-and-twist-data', props=('C05', 'C10'),
             src=f'{c}.twist == raw({s}.weapon.twist) and {c}.length == raw({dm}.length) and '
                 f'{c}.diameter == raw({dm}.diameter) and {c}.weight == raw({dm}.weight)'),
        dict(label='calc-step-is-half-the-configured-maximum', props=('C18', 'C10'),
             src=f'{c}.calc_step == {c}._config.max_calc_step_size_feet / 2'),
        dict(label='launch-velocity-is-for-the-atmospheres-powder-temperature', props=('C17', 'C10'),
             src=f'{c}.muzzle_velocity == launch_velocity_mps({s}.ammo, {s}.atmo._powder_temp) * 3.2808399'),
        dict(label='stability-coefficient-is-millers-for-this-shot', props=('C05', 'C10'),
             src=f'{c}.stability_coefficient == miller_sg({c}.twist, {c}.length, {c}.diameter, {c}.weight, '
                 f'{c}.muzzle_velocity, raw({s}.atmo._temperature), raw({s}.atmo._pressure))'),
    ]


ASC = ('forall(0, len({t}), lambda i: forall(i + 1, len({t}), lambda j: {t}[i].Mach < {t}[j].Mach))')
ALLP = ('C01', 'C03', 'C05', 'C09', 'C10', 'C17', 'C18')

contract(f'{SF}::init_once', props=ALLP,
         params=dict(calc=CALC, shot=shot_shape()),
         requires=[('table-strictly-ascending', ASC.format(t='shot.ammo.dm.drag_table'))],
         ensures=state_clauses('result', 'shot'),
         modifies=['calc.*', '*._defined_units'],
         reveal=['line_through'])

contract(f'{SF}::init_twice', props=ALLP,
         params=dict(calc=CALC, shot_a=shot_shape(), shot_b=shot_shape()),
         requires=[('table-a-strictly-ascending', ASC.format(t='shot_a.ammo.dm.drag_table')),
                   ('table-b-strictly-ascending', ASC.format(t='shot_b.ammo.dm.drag_table'))],
         ensures=state_clauses('result', 'shot_b'),
         modifies=['calc.*', '*._defined_units'],
         reveal=['line_through'])

from pyvc.contract import Int, ListOf  # noqa: E402
from py_ballisticcalc.drag_model import DragDataPoint  # noqa: E402
from .shapes import dm_shape, ammo_shape  # noqa: E402
MUTABLE_POINTS = ListOf(Obj(DragDataPoint, Mach=Real(), CD=Real()), minlen=3)
contract(f'{SF}::init_edit_init', props=('C09', 'C10'),
         params=dict(calc=CALC, shot=shot_shape(ammo=ammo_shape(dm=dm_shape(drag_table=MUTABLE_POINTS),
                                                                   use_powder_sensitivity=Const(False))),
                     k=Int(lo=0), cd=Real()),
         requires=[('table-strictly-ascending', ASC.format(t='shot.ammo.dm.drag_table')),
                   ('k-in-table', 'k < len(shot.ammo.dm.drag_table)')],
         ensures=[c for c in state_clauses('result', 'shot') if 'C09' in c['props']],
         modifies=['calc.*', '*._defined_units', 'shot.ammo.dm.drag_table*'],
         reveal=['line_through'])

# C09/C10 history: the second of two successive drag queries on an initialised calculator satisfies the very clause of
# drag_by_mach's contract (the look-up keeps no position between queries)
from pyvc.contract import REGISTRY as _REG  # noqa: E402
_dbm = _REG[f'{TC}::TrajectoryCalc.drag_by_mach']
contract(f'{SF}::drag_queries_after_init', props=('C09', 'C10', 'C01'),
         params=dict(calc=CALC, shot=shot_shape(), m1=Real(lo=0, hi=10), m2=Real(lo=0, hi=10)),
         requires=[('table-strictly-ascending', ASC.format(t='shot.ammo.dm.drag_table'))],
         ensures=[('second-query-answered-from-the-table-whatever-the-first-query-was',
                   _dbm.ensures[0].src.replace('self.', 'result[0].').replace('result ==', 'result[2] ==')
                   .replace('mach_list[k] <= mach <= ', 'mach_list[k] <= m2 <= ').replace('mach * (', 'm2 * (')
                   .replace('a * mach)', 'a * m2)').replace('implies(mach >', 'implies(m2 >'))],
         modifies=['calc.*', '*._defined_units'], reveal=['line_through'],
         inline=[f'{TC}::TrajectoryCalc.drag_by_mach'])     # the real body runs twice: state kept between queries shows
