"""C06 / C13 - unit.py: per-dimension to_raw / from_raw against the SI table of specfn.py
(written from the property statement), exact inverse lemmas, transitivity lemma,
UnitConversionError for foreign units."""
import py_ballisticcalc.unit as U
from py_ballisticcalc.unit import Unit

from pyvc.contract import contract, Real, Int, Obj, Enum, Const, OneOf, Quantity

UF = 'py_ballisticcalc/unit.py'
SF = 'verif:contracts/specfn.py'

DIMS = {
    'Distance': U.Distance, 'Pressure': U.Pressure, 'Weight': U.Weight, 'Temperature': U.Temperature,
    'Angular': U.Angular, 'Velocity': U.Velocity, 'Energy': U.Energy,
}
ALL_UNITS = list(Unit)


def units_of(cls):
    seen, out = set(), []
    for k, v in vars(cls).items():
        if isinstance(v, Unit) and v not in seen:
            seen.add(v)
            out.append(v)
    return out


for dim, cls in DIMS.items():
    own = units_of(cls)
    foreign = [u for u in ALL_UNITS if u not in own]
    ang = dim == 'Angular'
    # --- own units: value agrees with the SI definitions ------------------------------------
    contract(f'{UF}::{dim}.to_raw', props=('C06',),
             params=dict(self=Obj(cls), value=Real(), units=Enum(*own)),
             requires=[('one-turn', 'angle_in_one_turn(value, units)')] if ang else [],
             ensures=[('agrees-with-SI-definition', f'to_base_ok({dim!r}, value, units, result)')],
             modifies=[])
    contract(f'{UF}::{dim}.from_raw', props=('C06',),
             params=dict(self=Obj(cls), value=Real(), units=Enum(*own)),
             requires=[('domain', 'raw_angle_in_domain(value, units)')] if ang else [],
             ensures=[('agrees-with-SI-definition', f'from_base_ok({dim!r}, value, units, result)')],
             modifies=[])
    # --- foreign units: conversion error, never a number (C13) ----------------------------------
    contract(f'{UF}::{dim}.to_raw', tag='foreign', props=('C13',),
             params=dict(self=Obj(cls), value=Real(), units=Enum(*foreign)),
             raises={'UnitConversionError': 'True'}, modifies=[])
    contract(f'{UF}::{dim}.from_raw', tag='foreign', props=('C13',),
             params=dict(self=Obj(cls), value=Real(), units=Enum(*foreign)),
             raises={'UnitConversionError': 'True'}, modifies=[])
    # --- lemmas over the real functions: exact inverses (in R) and transitivity -------------
    contract(f'{SF}::to_then_from', tag=dim, props=('C06',),
             params=dict(q=Obj(cls), v=Real(), u=Enum(*own)),
             requires=[('one-turn', 'angle_in_one_turn(v, u)')] if ang else [],
             ensures=[('unit-to-base-to-unit-is-identity', 'result == v')], modifies=[])
    contract(f'{SF}::from_then_to', tag=dim, props=('C06',),
             params=dict(q=Obj(cls), r=Real(), u=Enum(*own)),
             requires=[('domain', 'raw_angle_in_domain(r, u)')] if ang else [],
             ensures=[('base-to-unit-to-base-is-identity', 'result == r')], modifies=[])
    contract(f'{SF}::a_to_b_to_c', tag=dim, props=('C06',),
             params=dict(q=Obj(cls), v=Real(), a=Enum(*own), b=Enum(*own), c=Enum(*own)),
             requires=([('one-turn', 'angle_in_one_turn(v, a)'),
                        ('quarter-turn-when-passing-through-a-tangent-unit',
                         'implies(b in TANGENT_RUN and a not in TANGENT_RUN, abs(v) * SI_FACTOR[a] < PI / 2) '
                         'if a not in TANGENT_RUN else True')] if ang else []),
             ensures=[('A-to-B-to-C-equals-A-to-C', 'result == a_to_c(q, v, a, c)')], modifies=[])
