"""C17 (powder temperature sensitivity) and C19 (sight clicks) - munition.py"""
import py_ballisticcalc.munition as M
import py_ballisticcalc.unit as U
from py_ballisticcalc.unit import Unit

from pyvc.contract import contract, Real, Obj, Enum, Const, OneOf
from pyvc.rt import Struct
from .shapes import Q, QVel, QTemp, QDist, QAng, LINEAR_ANGULAR, TANGENT_ANGULAR

MF = 'py_ballisticcalc/munition.py'
DISPLAY_ONLY = ['*._defined_units']          # conversions may only change the unit a quantity displays in

AMMO = Obj(M.Ammo, dm=Const(None), mv=QVel(Unit.MPS, Unit.FPS), powder_temp=QTemp(Unit.Celsius, Unit.Fahrenheit),
           temp_modifier=Real(), use_powder_sensitivity=Enum(True, False))

# ---------------------------------------------------------------------------------------- C17
V0 = 'raw(self.mv)'
T0 = 'celsius_of_raw_f(raw(self.powder_temp))'

contract(f'{MF}::Ammo.get_velocity_for_temp', props=('C17',),
         params=dict(self=AMMO, current_temp=QTemp(Unit.Celsius, Unit.Kelvin)),
         ensures=[
             ('disabled-returns-stated-velocity', 'implies(not self.use_powder_sensitivity, same_object(result, self.mv))'),
             ('enabled-is-linear-anchored-law',
              f'implies(self.use_powder_sensitivity, raw(result) == velocity_at({V0}, {T0}, self.temp_modifier, '
              'celsius_of_arg(current_temp)))'),
         ],
         modifies=DISPLAY_ONLY)

AMMO_ON = Obj(M.Ammo, dm=Const(None), mv=QVel(Unit.MPS, Unit.FPS, value=Real(lo=0, lo_open=True)),
              powder_temp=QTemp(Unit.Celsius, Unit.Fahrenheit), temp_modifier=Real(), use_powder_sensitivity=Const(True))
V1 = 'mps_of_arg(other_velocity)'
T1 = 'celsius_of_arg(other_temperature)'

contract(f'{MF}::Ammo.calc_powder_sens', props=('C17',),
         params=dict(self=AMMO_ON,
                     # bare numbers are read in the preferred unit first: that coercion is C07's contract
                     other_velocity=QVel(Unit.MPS, Unit.KMH, value=Real(lo=0, lo_open=True)),
                     other_temperature=QTemp(Unit.Celsius, Unit.Fahrenheit)),
         raises={'ValueError': f'{V1} == {V0} or {T1} == {T0}'},
         ensures=[
             ('returns-stored-modifier', 'result == self.temp_modifier'),
             # "makes the ammunition reproduce that second measurement, whichever of the two is the faster one"
             ('reproduces-second-measurement-when-it-is-faster',
              f'implies({V1} > {V0} and ({V1} - {V0}) * ({T1} - {T0}) > 0, '
              f'velocity_at({V0}, {T0}, self.temp_modifier, {T1}) == {V1})'),
             ('reproduces-second-measurement-when-it-is-slower',
              f'implies({V1} < {V0} and ({V1} - {V0}) * ({T1} - {T0}) > 0, '
              f'velocity_at({V0}, {T0}, self.temp_modifier, {T1}) == {V1})'),
         ],
         modifies=['self.temp_modifier'] + DISPLAY_ONLY)

# ---------------------------------------------------------------------------------------- C19
POS = Real(lo=0, lo_open=True)
SMALL = Real(lo=0, lo_open=True, hi=0.01)
SIGHT = Obj(M.Sight, focal_plane=Enum('FFP', 'SFP', 'LWIR'),
            # the calibration distance may be displayed in any unit (set under another PreferredUnits.distance, or
            # assigned by the caller): the click law is about magnitudes
            scale_factor=Q(U.Distance, Unit.Yard, Unit.Meter, value=POS),
            h_click_size=Q(U.Angular, Unit.Mil, Unit.InchesPer100Yd, value=SMALL),
            v_click_size=Q(U.Angular, Unit.MOA, Unit.CmPer100m, value=SMALL))

EFF = ('effective_click(self.focal_plane, raw(self.{c}_click_size), self.{c}_click_size.units, '
       'raw(self.scale_factor), inch_of_arg(target_distance), magnification)')

contract(f'{MF}::Sight.get_adjustment', props=('C19',),
         params=dict(self=SIGHT, target_distance=QDist(Unit.Meter, value=POS),
                     drop_adj=QAng(Unit.Mil), windage_adj=QAng(Unit.Mil),
                     magnification=Real(lo=0.5, hi=60)),
         requires=[('effective-click-within-a-turn',
                    'raw(self.scale_factor) / raw(target_distance) * magnification <= 100')],
         ensures=[
             ('elevation-clicks-are-correction-over-effective-vertical-click',
              'result.vertical * ' + EFF.format(c='v') + ' == raw(drop_adj)'),
             ('windage-clicks-are-correction-over-effective-horizontal-click',
              'result.horizontal * ' + EFF.format(c='h') + ' == raw(windage_adj)'),
         ],
         modifies=DISPLAY_ONLY)

contract(f'{MF}::Sight.get_trajectory_adjustment', props=('C19',),
         params=dict(self=Obj(M.Sight, focal_plane=Enum('FFP', 'SFP', 'LWIR'), scale_factor=QDist(Unit.Yard, value=POS),
                              h_click_size=Q(U.Angular, Unit.Mil, value=SMALL),
                              v_click_size=Q(U.Angular, Unit.MOA, value=SMALL)),
                     trajectory_point=Obj(Struct, distance=QDist(Unit.Foot, value=POS), drop_adj=QAng(Unit.Radian),
                                          windage_adj=QAng(Unit.Radian)),
                     magnification=Real(lo=0.5, hi=60)),
         requires=[('effective-click-within-a-turn',
                    'raw(self.scale_factor) / raw(trajectory_point.distance) * magnification <= 100')],
         ensures=[
             ('uses-the-rows-distance-and-drop-correction',
              'result.vertical * ' + EFF.format(c='v').replace('target_distance', 'trajectory_point.distance')
              + ' == raw(trajectory_point.drop_adj)'),
             ('uses-the-rows-distance-and-windage-correction',
              'result.horizontal * ' + EFF.format(c='h').replace('target_distance', 'trajectory_point.distance')
              + ' == raw(trajectory_point.windage_adj)'),
         ],
         modifies=DISPLAY_ONLY)

BAD_PLANE = ('(focal_plane not in ("FFP", "SFP", "LWIR") or (focal_plane == "SFP" and '
             '(scale_factor is None or (is_number(scale_factor) and scale_factor == 0))))')
contract(f'{MF}::Sight.__init__', props=('C19',),
         params=dict(self=Obj(M.Sight),
                     focal_plane=Enum('FFP', 'SFP', 'LWIR', 'XFP'),
                     scale_factor=OneOf(Const(None), Real(), QDist(Unit.Meter)),
                     # click sizes within one turn (a larger angle is wrapped by Angular.to_raw)
                     h_click_size=OneOf(Const(None), Real(lo=-1000, hi=1000), QAng(Unit.Mil, value=Real(lo=-6, hi=6))),
                     v_click_size=OneOf(Const(None), Real(lo=-1000, hi=1000), QAng(Unit.MOA, value=Real(lo=-6, hi=6)))),
         raises={
             'ValueError': BAD_PLANE,
             'TypeError': f'not {BAD_PLANE} and '
                          '(h_click_size is None or v_click_size is None or '
                          '(raw(h_click_size) if is_quantity(h_click_size) else h_click_size) <= 0 or '
                          '(raw(v_click_size) if is_quantity(v_click_size) else v_click_size) <= 0)',
         },
         ensures=[('stores-focal-plane', 'self.focal_plane == focal_plane'),
                  ('click-sizes-positive', 'raw(self.h_click_size) > 0 and raw(self.v_click_size) > 0')],
         modifies=['self.*'] + DISPLAY_ONLY)

# whatever spellings of the focal plane a version of the constructor accepts: a sight that exists has a known focal plane,
# and a second-focal-plane sight has a calibration distance (the statement's rejection clause as a state invariant)
contract(f'{MF}::Sight.__init__', tag='any-spelling', props=('C19',),
         params=dict(self=Obj(M.Sight),
                     focal_plane=Enum('SFP', 'sfp', 'Sfp', 'ffp', 'lwir', 'XFP', 'xfp', ''),
                     scale_factor=OneOf(Const(None), Const(0), QDist(Unit.Meter, value=POS)),
                     h_click_size=QAng(Unit.Mil, value=Real(lo=0, lo_open=True, hi=6)),
                     v_click_size=QAng(Unit.MOA, value=Real(lo=0, lo_open=True, hi=6))),
         raises={'ValueError': None},
         ensures=[('an-existing-sight-has-a-known-focal-plane', 'self.focal_plane in ("FFP", "SFP", "LWIR")'),
                  ('an-existing-second-focal-plane-sight-has-a-calibration-distance',
                   'implies(self.focal_plane == "SFP", is_quantity(scale_factor) and raw(self.scale_factor) == raw(scale_factor) '
                   'and raw(self.scale_factor) > 0)')],
         modifies=['self.*'] + DISPLAY_ONLY)

# history: used before calibration / edited after use (no stale state may survive: C17 speaks of "the ammunition",
# not of a freshly built one)
SF = 'verif:contracts/specfn.py'
contract(f'{SF}::velocity_after_use_then_calibration', props=('C17',),
         params=dict(v0=Real(lo=100, hi=1500), t0=Real(lo=-40, hi=60), v1=Real(lo=100, hi=1500), t1=Real(lo=-40, hi=60),
                     t_query=Real(lo=-40, hi=60)),
         requires=[('second-measurement-differs-and-is-monotone', 'v1 != v0 and t1 != t0 and (v1 - v0) * (t1 - t0) > 0')],
         ensures=[('an-ammunition-used-before-calibration-reproduces-the-second-measurement', 'raw(result) == v1')],
         modifies=DISPLAY_ONLY)
contract(f'{SF}::velocity_after_use_then_edit', props=('C17',),
         params=dict(v0=Real(lo=100, hi=1500), t0=Real(lo=-40, hi=60), m0=Real(lo=0, hi=5), v0b=Real(lo=100, hi=1500),
                     m1=Real(lo=0, hi=5), t_query=Real(lo=-40, hi=60)),
         ensures=[('an-edited-ammunition-answers-like-a-fresh-one-with-the-same-data', 'raw(result[0]) == raw(result[1])')],
         modifies=DISPLAY_ONLY)
