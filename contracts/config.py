"""C18 - configuration: create_interface_config, TrajectoryCalc.__init__/get_calc_step, global step setter,
unit-name parsing (_parse_unit, PreferredUnits.set)."""
import py_ballisticcalc.unit as U
from py_ballisticcalc.unit import Unit, UnitAliases
import py_ballisticcalc.trajectory_calc as TCM
import py_ballisticcalc.trajectory_calc._trajectory_calc as tc

from pyvc.contract import (contract, Real, Int, Obj, Rec, Enum, Const, OneOf, DictOf, Built, OpaqueStr, Quantity)
from .shapes import config_shape, QDist

IC = 'py_ballisticcalc/interface_config.py'
TC = 'py_ballisticcalc/trajectory_calc/_trajectory_calc.py'
TI = 'py_ballisticcalc/trajectory_calc/__init__.py'
UF = 'py_ballisticcalc/unit.py'

KEYS = ['max_calc_step_size_feet', 'chart_resolution', 'cZeroFindingAccuracy', 'cMinimumVelocity', 'cMaximumDrop',
        'cMaxIterations', 'cGravityConstant', 'cMinimumAltitude']
DEFAULTS = {'max_calc_step_size_feet': 'py_ballisticcalc.trajectory_calc._globalMaxCalcStepSizeFeet', 'chart_resolution': '0.2',
            'cZeroFindingAccuracy': '0.000005', 'cMinimumVelocity': '50.0', 'cMaximumDrop': '-15000',
            'cMaxIterations': '20', 'cGravityConstant': '-32.17405', 'cMinimumAltitude': '-1410.748'}


def merged(keys_given):
    return [(f'{k}-is-the-given-value-else-the-documented-default',
             f'result.{k} == ' + (f'interface_config[{k!r}]' if k in keys_given else DEFAULTS[k])) for k in KEYS]


SUBSETS = [[], KEYS] + [[k] for k in KEYS] + [['cGravityConstant', 'cMinimumVelocity'], ['max_calc_step_size_feet', 'cMaxIterations']]
for i, sub in enumerate(SUBSETS):
    shape = DictOf(**{k: (Int(lo=0, hi=1000) if k == 'cMaxIterations' else Real()) for k in sub})
    contract(f'{IC}::create_interface_config', tag=f'keys-{i}', props=('C18',),
             params=dict(interface_config=shape if sub or i == 1 else OneOf(Const(None), DictOf())),
             ensures=merged(sub), modifies=[])
contract(f'{IC}::create_interface_config', tag='unknown-key', props=('C18',),
         params=dict(interface_config=DictOf(cGravity=Real())), raises={'TypeError': 'True'}, modifies=[])

contract(f'{TC}::TrajectoryCalc.__init__', props=('C18', 'C10'),
         params=dict(self=Obj(tc.TrajectoryCalc), _config=config_shape()),
         ensures=[('keeps-its-own-configuration', ' and '.join(f'self._config.{k} == _config.{k}' for k in KEYS)),
                  ('gravity-vector-is-the-configured-gravity-straight-down',
                   'self.gravity_vector.x == 0 and self.gravity_vector.y == _config.cGravityConstant and self.gravity_vector.z == 0')],
         modifies=['self.*'])

contract(f'{TC}::TrajectoryCalc.get_calc_step', props=('C18',),
         params=dict(self=Obj(tc.TrajectoryCalc, _config=config_shape()), step=OneOf(Const(0), Real(lo=0, lo_open=True))),
         ensures=[('half-the-configured-maximum-or-half-the-smaller-proposal',
                   'result == (self._config.max_calc_step_size_feet / 2 if step == 0 else '
                   'min(step, self._config.max_calc_step_size_feet) / 2)'),
                  ('never-more-than-half-the-configured-maximum', 'result <= self._config.max_calc_step_size_feet / 2')],
         modifies=[])

contract(f'{TI}::set_global_max_calc_step_size', props=('C18',),
         params=dict(value=OneOf(Real(), QDist(Unit.Foot, Unit.Meter))),
         raises={'ValueError': '(raw(value) if is_quantity(value) else value) <= 0'},
         ensures=[('later-default-is-that-step-in-feet',
                   'py_ballisticcalc.trajectory_calc._globalMaxCalcStepSizeFeet == (raw(value) / 12 if is_quantity(value) '
                   'else value * SI_FACTOR[PreferredUnits.distance] / SI_FACTOR[Unit.Foot])')],
         exc_ensures={'ValueError': [('rejected-value-leaves-the-default-unchanged',
                                      'py_ballisticcalc.trajectory_calc._globalMaxCalcStepSizeFeet == '
                                      'old(py_ballisticcalc.trajectory_calc._globalMaxCalcStepSizeFeet)')]},
         modifies=['<global _globalMaxCalcStepSizeFeet>', '*._defined_units'])

contract(f'{TI}::reset_globals', props=('C18',), params={},
         ensures=[('default-step-is-half-a-foot', 'py_ballisticcalc.trajectory_calc._globalMaxCalcStepSizeFeet == 0.5')],
         modifies=['<global _globalMaxCalcStepSizeFeet>', '<global _globalUsePowderSensitivity>'])

# ------------------------------------------------------------------------------------------ unit names
NORMAL_FORMS = {}
for u in Unit:
    NORMAL_FORMS.setdefault(u.name.lower(), u)
for als, u in UnitAliases.items():
    for a in als:
        NORMAL_FORMS.setdefault(a.strip().lower(), u)
for nf, u in sorted(NORMAL_FORMS.items()):
    contract(f'{UF}::_parse_unit', tag=f'name-{nf}', props=('C18',),
             params=dict(input_=OpaqueStr(nf)),
             ensures=[('resolves-to-that-unit-in-any-letter-case-and-with-surrounding-blanks', f'result is Unit.{u.name}')],
             modifies=[])
    contract(f'{UF}::PreferredUnits.set', tag=f'name-{nf}', props=('C18',),
             params=dict(cls=Const(U.PreferredUnits, src='PreferredUnits'),
                         kwargs=DictOf(**{('angular' if int(u) < 10 else 'distance'): OpaqueStr(nf)})),
             ensures=[('setter-stores-that-unit',
                       f'PreferredUnits.{"angular" if int(u) < 10 else "distance"} is Unit.{u.name}')],
             modifies=['PreferredUnits.*'])
for nf in ('bogus', 'set', 'defaults', 'inches', ''):
    contract(f'{UF}::_parse_unit', tag=f'unknown-{nf or "empty"}', props=('C18',),
             params=dict(input_=OpaqueStr(nf)),
             ensures=[('unknown-name-selects-no-unit', 'result is None')], modifies=[])
    contract(f'{UF}::PreferredUnits.set', tag=f'unknown-{nf or "empty"}', props=('C18',),
             params=dict(cls=Const(U.PreferredUnits, src='PreferredUnits'), kwargs=DictOf(distance=OpaqueStr(nf))),
             ensures=[('unknown-name-leaves-the-setting-unchanged', 'PreferredUnits.distance is old(PreferredUnits.distance)')],
             modifies=[])

# history: the setter, then a new configuration (the by-value copy of a module global taken at import time would
# freeze the default; C18: "the global default-step setter affects only calculators created afterwards")
SF = 'verif:contracts/specfn.py'
contract(f'{SF}::default_step_of_a_configuration_created_after_the_setter', props=('C18',),
         params=dict(v=Real(lo=0, lo_open=True, hi=100)),
         ensures=[('a-configuration-created-after-the-setter-has-the-new-default-step', 'result == v')],
         modifies=['<global _globalMaxCalcStepSizeFeet>', '<global _globalUsePowderSensitivity>', '*._defined_units'])
contract(f'{SF}::step_of_a_configuration_created_before_the_setter', props=('C18',),
         params=dict(v=Real(lo=0, lo_open=True, hi=100)),
         ensures=[('a-configuration-created-before-the-setter-keeps-its-step', 'result[0] == result[1]')],
         modifies=['<global _globalMaxCalcStepSizeFeet>', '<global _globalUsePowderSensitivity>', '*._defined_units'])
