"""TrajectoryCalc._integrate - the integration loop (C01 step/initial state, C03 rows, C04 limits and range errors,
C11 recording never changes computing, C12 wind in force, C15 flags, C18 step size)."""
import py_ballisticcalc.trajectory_calc._trajectory_calc as tc
import py_ballisticcalc.conditions as C
from py_ballisticcalc.vector import Vector
from py_ballisticcalc.unit import Unit
from fractions import Fraction

from pyvc.contract import contract, LoopContract, Real, Int, Obj, Rec, Enum, Const, OneOf, ListOf, Flags
from .shapes import VEC, config_shape, atmo_shape
from .drag import CURVE
from .wind import WINDF, SOCK_INV, UNTIL, W as SOCKW
from .lookup import ROW

TC = 'py_ballisticcalc/trajectory_calc/_trajectory_calc.py'
INTEGRATE_PROPS = ('C01', 'C03', 'C04', 'C10', 'C11', 'C12', 'C15', 'C18')

CALC = Obj(tc.TrajectoryCalc,
           _config=config_shape(), gravity_vector=Rec(Vector, x=Const(Fraction(0)), y=Real(hi=0, hi_open=True), z=Const(Fraction(0))),
           look_angle=Real(lo=-1.5, hi=1.5), twist=Real(), length=Real(lo=0), diameter=Real(lo=0), weight=Real(lo=0),
           barrel_elevation=Real(lo=-1.5, hi=1.5), barrel_azimuth=Real(lo=-1.5, hi=1.5), sight_height=Real(),
           cant_cosine=Real(lo=-1, hi=1), cant_sine=Real(lo=-1, hi=1), alt0=Real(lo=-2000, hi=40000),
           calc_step=Real(lo=0, lo_open=True), muzzle_velocity=Real(lo=0, lo_open=True), stability_coefficient=Real(),
           _bc=Real(lo=0, lo_open=True), _curve=CURVE, _TrajectoryCalc__mach_list=ListOf(Real(), minlen=3))
SHOT = Obj(C.Shot, _winds=ListOf(WINDF, frozen=True, minlen=1), atmo=atmo_shape())   # Shot() never stores an empty list

WS = 'wind_sock'
DF = 'data_filter'
SOCK = [(l, s.replace('self.', f'{WS}.')) for l, s in SOCK_INV]
UNT = UNTIL.replace('self.', f'{WS}.')
WSW = SOCKW.replace('self.', f'{WS}.')

INV = [
    ('time-not-negative', 'time >= 0'),
    ('after-the-first-step-the-state-is-within-all-limits',
     'implies(it >= 1, velocity >= _cMinimumVelocity and range_vector.y >= _cMaximumDrop and '
     'self.alt0 + range_vector.y >= _cMinimumAltitude)'),
    ('iteration-counter', 'it >= 0'),
    # C11/C18: what is requested to be recorded does not change the integration step
    ('the-integration-step-is-the-one-the-calculator-was-initialised-with', 'self.calc_step == old(self.calc_step)'),
] + SOCK + [
    ('winds-sorted', f'forall(0, len({WSW}), lambda i: forall(i + 1, len({WSW}), lambda j: '
                     f'raw({WSW}[i].until_distance) <= raw({WSW}[j].until_distance)))'),
    ('never-ahead-no-segment-ending-beyond-the-projectile-has-been-left',
     f'forall(0, {WS}.current, lambda i: {UNT.format(k="i")} <= range_vector.x)'),
    ('wind-in-force-is-the-cached-one', f'wind_vector.x == {WS}._last_vector_cache.x and wind_vector.y == '
                                        f'{WS}._last_vector_cache.y and wind_vector.z == {WS}._last_vector_cache.z'),
    ('filter-settings', f'{DF}.filter == filter_flags and {DF}.range_step == record_step and {DF}.time_step == time_step '
                        f'and {DF}.look_angle == self.look_angle'),
    ('filter-time-bookkeeping', f'{DF}.previous_time <= time and {DF}.time_of_last_record <= time'),
]


def _witness(flags):
    def w(ns):
        """a real calculator initialised for a real shot by the real _init_trajectory"""
        P = ns['py_ballisticcalc']
        shot = P.Shot(P.Weapon(P.Unit.Inch(2), P.Unit.Inch(12)), P.Ammo(P.DragModel(0.223, P.TableG7), P.Unit.FPS(2750)),
                      winds=[P.Wind(P.Unit.MPH(5), P.Unit.Degree(45), P.Unit.Yard(100)), P.Wind(P.Unit.MPH(3), P.Unit.Degree(90))])
        calc = P.Calculator()
        calc._calc._init_trajectory(shot)
        return dict(self=calc._calc, shot_info=shot, maximum_range=600.0, record_step=150.0, filter_flags=flags, time_step=0.0)
    return w


# ---- specification fragments ----------------------------------------------------------------------------------------
SIG = 'air_speed(head(velocity_vector), wind_vector)'
DT = f'(self.calc_step / max(1.0, {SIG}))'
RET = f'retardation(self, shot_info.atmo, head(range_vector.y), {SIG})'


def U(c):
    return f'(head(velocity_vector.{c}) - wind_vector.{c})'


E, A = 'self.barrel_elevation', 'self.barrel_azimuth'
V0 = {'x': f'self.muzzle_velocity * (math.cos({E}) * math.cos({A}))', 'y': f'self.muzzle_velocity * math.sin({E})',
      'z': f'self.muzzle_velocity * (math.cos({E}) * math.sin({A}))'}
P0 = {'x': '0', 'y': '-self.cant_cosine * self.sight_height', 'z': '-self.cant_sine * self.sight_height'}
MUZZLE = ' and '.join([f'range_vector.{c} == {P0[c]}' for c in 'xyz'] + [f'velocity_vector.{c} == {V0[c]}' for c in 'xyz']
                      + ['time == 0'])

ENTRY = [
    ('starts-at-the-muzzle-displaced-by-the-canted-sight-height-launched-along-the-barrel-at-muzzle-velocity', MUZZLE),
    ('no-rows-yet-first-record-distance-is-the-muzzle',
     f'len(ranges) == 0 and {DF}.next_record_distance == 0 and {DF}.previous_position.x == range_vector.x'),
]
STEP = [
    dict(label='time-advances-by-the-step-normalised-by-the-air-relative-speed', props=('C01',),
         src=f'time == head(time) + {DT} and {DT} > 0'),
    dict(label='step-measured-with-the-pre-step-air-speed-is-half-the-configured-maximum-when-faster-than-1-fps',
         props=('C18',), src=f'(time - head(time)) * max(1.0, {SIG}) == self.calc_step'),
    dict(label='velocity-changes-by-dt-times-gravity-minus-retardation-times-the-air-relative-velocity', props=('C01',),
         src=' and '.join([
             f'velocity_vector.x == head(velocity_vector.x) - ({U("x")} * {RET}) * {DT}',
             f'velocity_vector.y == head(velocity_vector.y) - ({U("y")} * {RET} - self._config.cGravityConstant) * {DT}',
             f'velocity_vector.z == head(velocity_vector.z) - ({U("z")} * {RET}) * {DT}'])),
    dict(label='position-changes-by-dt-times-the-new-velocity', props=('C01',),
         src=' and '.join([f'range_vector.{c} == head(range_vector.{c}) + velocity_vector.{c} * {DT}' for c in 'xyz'])),
    dict(label='wind-in-force-is-that-of-the-segment-containing-the-current-distance-none-beyond-the-last', props=('C12', 'C01'),
         src=f'forall(0, len({WSW}), lambda i: implies({UNT.format(k="i")} <= head(range_vector.x), i < {WS}.current)) and '
             f'forall(0, {WS}.current, lambda i: {UNT.format(k="i")} <= head(range_vector.x))'),
    dict(label='the-state-kept-after-a-step-is-within-all-three-limits', props=('C04',),
         src='velocity >= _cMinimumVelocity and range_vector.y >= _cMaximumDrop and '
             'self.alt0 + range_vector.y >= _cMinimumAltitude'),
]
LAST = 'exc.incomplete_trajectory[len(exc.incomplete_trajectory) - 1]'
RAISE = [
    ('reason-is-the-first-violated-limit-in-the-order-velocity-drop-altitude',
     '(exc.reason == "Minimum velocity reached") == (velocity < _cMinimumVelocity) and '
     '(exc.reason == "Maximum drop reached") == (velocity >= _cMinimumVelocity and range_vector.y < _cMaximumDrop) and '
     '(exc.reason == "Minimum altitude reached") == (velocity >= _cMinimumVelocity and range_vector.y >= _cMaximumDrop '
     'and self.alt0 + range_vector.y < _cMinimumAltitude)'),
    ('the-limits-are-those-of-this-calculators-configuration',
     '_cMinimumVelocity == self._config.cMinimumVelocity and _cMaximumDrop == self._config.cMaximumDrop and '
     '_cMinimumAltitude == self._config.cMinimumAltitude'),
    ('last-row-of-the-partial-trajectory-is-the-offending-state',
     f'len(exc.incomplete_trajectory) >= 1 and {LAST}.time == time and raw({LAST}.distance) == range_vector.x * 12 and '
     f'raw({LAST}.height) == range_vector.y * 12'),
    ('reported-last-distance-is-that-of-the-last-row', f'raw(exc.last_distance) == raw({LAST}.distance)'),
    ('speed-checked-is-the-norm-of-the-velocity-after-the-step',
     'velocity >= 0 and velocity * velocity == velocity_vector.x * velocity_vector.x + velocity_vector.y * velocity_vector.y '
     '+ velocity_vector.z * velocity_vector.z'),
]
PHYSICS = ['range_vector', 'velocity_vector', 'time', 'wind_vector', f'{WS}.current', f'{WS}.next_range']
RECORDING = [DF, 'ranges', 'record_step', 'time_step', 'maximum_range']   # C11: neither the step nor the range requested

contract(f'{TC}::TrajectoryCalc._integrate', props=INTEGRATE_PROPS,
         params=dict(self=CALC, shot_info=SHOT, maximum_range=Real(lo=0), record_step=Real(lo=0),
                     filter_flags=Enum(0, 31), time_step=Real(lo=0)),   # 8 (RANGE) and 31 (ALL) take the same paths here
         requires=[('curve-matches-table', 'len(self._curve) == len(self._TrajectoryCalc__mach_list)'),
                   ('table-ascending', 'forall(0, len(self._TrajectoryCalc__mach_list), lambda i: forall(i + 1, '
                                       'len(self._TrajectoryCalc__mach_list), lambda j: self._TrajectoryCalc__mach_list[i] < '
                                       'self._TrajectoryCalc__mach_list[j]))'),
                   ('gravity-vector-is-the-configured-gravity', 'self.gravity_vector.y == self._config.cGravityConstant'),
                   ('cant-is-a-rotation', 'self.cant_cosine * self.cant_cosine + self.cant_sine * self.cant_sine == 1')],
         loops={0: LoopContract(
             invariants=INV, entry=ENTRY, step=STEP,
             hypotheses_end=[('H-fwd-the-projectile-keeps-moving-down-range', 'range_vector.x >= head(range_vector.x)')],
             lemmas_end=[('time-advances', 'time > head(time)')],   # about the state, not about the temporary delta_time
             independent=[('what-is-recorded-never-changes-what-is-computed', PHYSICS, RECORDING)],
             types={'ranges': ListOf(ROW).alternatives()[0], 'filter': Flags(), 'current_flag': Flags(),
                    'seen_zero': Flags()})},
         raises={'RangeError': None},
         exc_ensures={'RangeError': RAISE},
         ensures=[('returns-the-recorded-rows-at-least-one', 'len(result) >= 1'),
                  # ASSUMED (role 'assumed', never counted as discharged): with no recording the single row returned is a
                  # function of the barrel elevation and the range for a fixed shot - the code is deterministic and
                  # modifies nothing (frame clause of this contract; C10 scan: no random/time/id sources)
                  ('zeroing-run-height-is-a-function-of-the-elevation-used',
                   'implies(filter_flags == 0, raw(result[0].height) == zero_run_height(self.barrel_elevation, maximum_range) * 12)',
                   'assumed'),
                  ('loop-left-only-beyond-the-requested-range-plus-the-smaller-of-calc-step-and-record-step',
                   'range_vector.x > maximum_range + min(self.calc_step, record_step)')],
         modifies=['*._defined_units'], prune=True, heavy=True, modular=True, witnesses=[_witness(0), _witness(31)],
         result_shape=ListOf(ROW, minlen=1).alternatives()[0],
         use={f'{TC}::_TrajectoryDataFilter.should_record': [
                  'range-row-exactly-at-the-record-distance', 'recorded-distance-is-the-last-multiple-not-beyond-the-projectile',
                  'no-multiple-is-skipped-when-a-step-advances-by-at-most-the-record-step', 'range-flag-and-bookkeeping',
                  'time-row-only-when-no-range-row-and-the-time-step-has-passed', 'other-rows-are-the-current-state',
                  'a-row-is-returned-exactly-when-a-requested-flag-is-raised', 'remembers-the-current-state-for-the-next-step',
                  'seen-flags', 'settings-untouched', 'time-of-last-record-is-the-old-one-or-now'],
              f'{TC}::create_trajectory_row': ['time-distance-height-are-the-state', 'density-drag-flag-passed-through',
                                               'mach-is-speed-over-speed-of-sound'],
              f'{TC}::TrajectoryCalc.drag_by_mach': [],
              f'{TC}::TrajectoryCalc.spin_drift': [],
              'py_ballisticcalc/conditions.py::Atmo.get_density_factor_and_mach_for_altitude': [
                  'density-ratio-is-never-negative-and-speed-of-sound-is-positive']})


# ---------------------------------------------------------------------------------------------------------------------
# C01, vacuum: "in a vacuum they reproduce the closed-form parabola under standard gravity".
# A second verification task on the same real loop (tagged contract; the loop contract below replaces the primary one
# for this task only).  Antecedent: the station's density ratio is zero (what Vacuum.__init__ establishes, contracts/
# atmo.py); the callee contract of Atmo.get_density_factor_and_mach_for_altitude then gives zero density at every
# altitude, so the retardation term vanishes.  Ghost variable S2 = sum of the squared time steps taken so far.  The
# invariant is the *discrete* parabola, exact for the semi-implicit Euler scheme:
#     v(t) = v0 + g t,      p(t) = p0 + v0 t + g (t^2 + S2) / 2,      0 <= S2 <= calc_step * t
# hence every state is within |g| calc_step t / 2 of the closed-form parabola p0 + v0 t + g t^2 / 2 (step clause), for
# every wind, cant, look angle, table and step size - the bound vanishes as the step is refined.
G_ = 'self._config.cGravityConstant'


def _vac_witness(flags):
    def w(ns):
        """a real calculator initialised by the real _init_trajectory for a real shot in a real Vacuum atmosphere"""
        P = ns['py_ballisticcalc']
        shot = P.Shot(P.Weapon(P.Unit.Inch(2), P.Unit.Inch(12)), P.Ammo(P.DragModel(0.223, P.TableG7), P.Unit.FPS(2750)),
                      look_angle=P.Unit.Degree(3), cant_angle=P.Unit.Degree(5), relative_angle=P.Unit.Degree(1),
                      atmo=P.Vacuum(), winds=[P.Wind(P.Unit.MPH(5), P.Unit.Degree(45), P.Unit.Yard(100))])
        calc = P.Calculator()
        calc._calc._init_trajectory(shot)
        return dict(self=calc._calc, shot_info=shot, maximum_range=600.0, record_step=150.0, filter_flags=flags, time_step=0.0)
    return w


VAC_INV = [
    ('vacuum-velocity-is-muzzle-velocity-plus-gravity-times-time',
     f'velocity_vector.x == {V0["x"]} and velocity_vector.z == {V0["z"]} and velocity_vector.y == {V0["y"]} + {G_} * time'),
    ('vacuum-position-is-the-discrete-parabola',
     f'range_vector.x == {P0["x"]} + ({V0["x"]}) * time and range_vector.z == {P0["z"]} + ({V0["z"]}) * time and '
     f'range_vector.y == {P0["y"]} + ({V0["y"]}) * time + {G_} * (time * time + S2) / 2'),
    ('sum-of-squared-steps-is-at-most-the-integration-step-times-the-elapsed-time', f'0 <= S2 and S2 <= self.calc_step * time'),
]
VAC_STEP = [
    # exact form; with props/C01.py::lemma_vacuum_bound (0 <= S2 <= h t and g < 0 imply |g S2 / 2| <= |g| h t / 2) every
    # state is within |g| calc_step time / 2 of the closed-form parabola p0 + v0 t + g t^2 / 2
    dict(label='vacuum-state-is-the-closed-form-parabola-plus-half-g-times-the-sum-of-squared-steps', props=('C01',),
         src=f'range_vector.x == {P0["x"]} + ({V0["x"]}) * time and range_vector.z == {P0["z"]} + ({V0["z"]}) * time and '
             f'(range_vector.y - ({P0["y"]} + ({V0["y"]}) * time + {G_} * time * time / 2)) * 2 == {G_} * S2 and '
             f'0 <= S2 and S2 <= self.calc_step * time and '
             f'velocity_vector.x == {V0["x"]} and velocity_vector.z == {V0["z"]} and velocity_vector.y == {V0["y"]} + {G_} * time'),
]
contract(f'{TC}::TrajectoryCalc._integrate', tag='vacuum', props=('C01',),
         params=dict(self=CALC, shot_info=SHOT, maximum_range=Real(lo=0), record_step=Real(lo=0),
                     filter_flags=Enum(0, 31), time_step=Real(lo=0)),
         requires=[('curve-matches-table', 'len(self._curve) == len(self._TrajectoryCalc__mach_list)'),
                   ('table-ascending', 'forall(0, len(self._TrajectoryCalc__mach_list), lambda i: forall(i + 1, '
                                       'len(self._TrajectoryCalc__mach_list), lambda j: self._TrajectoryCalc__mach_list[i] < '
                                       'self._TrajectoryCalc__mach_list[j]))'),
                   ('gravity-vector-is-the-configured-gravity', 'self.gravity_vector.y == self._config.cGravityConstant'),
                   ('cant-is-a-rotation', 'self.cant_cosine * self.cant_cosine + self.cant_sine * self.cant_sine == 1'),
                   ('vacuum-the-stations-density-ratio-is-zero', 'shot_info.atmo._density_ratio == 0')],
         loops={0: LoopContract(
             invariants=INV + VAC_INV, step=VAC_STEP,
             ghost_init={'S2': '0.0'}, ghost_update={'S2': 'S2 + (time - head(time)) * (time - head(time))'},
             lemmas_end=[('time-advances', 'time > head(time)'),
                         ('a-time-step-is-at-most-the-integration-step', 'time - head(time) <= self.calc_step'),
                         ('squared-time-step-is-at-most-integration-step-times-time-step',
                          '(time - head(time)) * (time - head(time)) <= self.calc_step * (time - head(time))')],
             types={'ranges': ListOf(ROW).alternatives()[0], 'filter': Flags(), 'current_flag': Flags(),
                    'seen_zero': Flags()})},
         raises={'RangeError': None},
         modifies=['*._defined_units'], prune=True, heavy=True, witnesses=[_vac_witness(0), _vac_witness(31)],
         hints=['div-bounds'],
         result_shape=ListOf(ROW, minlen=1).alternatives()[0],
         use={f'{TC}::_TrajectoryDataFilter.should_record': ['settings-untouched', 'time-of-last-record-is-the-old-one-or-now',
                                                             'remembers-the-current-state-for-the-next-step'],
              f'{TC}::create_trajectory_row': [],
              f'{TC}::TrajectoryCalc.drag_by_mach': [],
              f'{TC}::TrajectoryCalc.spin_drift': [],
              'py_ballisticcalc/conditions.py::Atmo.get_density_factor_and_mach_for_altitude': [
                  'zero-density-station-gives-zero-density-everywhere',
                  'density-ratio-is-never-negative-and-speed-of-sound-is-positive']})
