"""TrajectoryCalc._integrate - the integration loop (C01 step/initial state, C03 rows, C04 limits and range errors,
C11 recording never changes computing, C12 wind in force, C15 flags, C18 step size)."""
import py_ballisticcalc.trajectory_calc._trajectory_calc as tc
import py_ballisticcalc.conditions as C
from py_ballisticcalc.vector import Vector
from py_ballisticcalc.unit import Unit
from fractions import Fraction

from pyvc.contract import contract, LoopContract, Real, Int, Obj, Rec, Enum, Const, OneOf, ListOf, Flags
from .shapes import VEC, config_shape, atmo_shape
from .drag import CURVE
from .wind import WINDF, SOCK_INV, UNTIL, W as SOCKW
from .lookup import ROW

TC = 'py_ballisticcalc/trajectory_calc/_trajectory_calc.py'
INTEGRATE_PROPS = ()     # set below once the contract is complete

CALC = Obj(tc.TrajectoryCalc,
           _config=config_shape(), gravity_vector=Rec(Vector, x=Const(Fraction(0)), y=Real(hi=0, hi_open=True), z=Const(Fraction(0))),
           look_angle=Real(lo=-1.5, hi=1.5), twist=Real(), length=Real(lo=0), diameter=Real(lo=0), weight=Real(lo=0),
           barrel_elevation=Real(lo=-1.5, hi=1.5), barrel_azimuth=Real(lo=-1.5, hi=1.5), sight_height=Real(),
           cant_cosine=Real(lo=-1, hi=1), cant_sine=Real(lo=-1, hi=1), alt0=Real(lo=-2000, hi=40000),
           calc_step=Real(lo=0, lo_open=True), muzzle_velocity=Real(lo=0, lo_open=True), stability_coefficient=Real(),
           _bc=Real(lo=0, lo_open=True), _curve=CURVE, _TrajectoryCalc__mach_list=ListOf(Real(), minlen=3))
SHOT = Obj(C.Shot, _winds=ListOf(WINDF, frozen=True, minlen=1), atmo=atmo_shape())   # Shot() never stores an empty list

WS = 'wind_sock'
DF = 'data_filter'
SOCK = [(l, s.replace('self.', f'{WS}.')) for l, s in SOCK_INV]
UNT = UNTIL.replace('self.', f'{WS}.')
WSW = SOCKW.replace('self.', f'{WS}.')

INV = [
    ('time-not-negative', 'time >= 0'),
    ('after-the-first-step-the-state-is-within-all-limits',
     'implies(it >= 1, velocity >= _cMinimumVelocity and range_vector.y >= _cMaximumDrop and '
     'self.alt0 + range_vector.y >= _cMinimumAltitude)'),
    ('iteration-counter', 'it >= 0'),
] + SOCK + [
    ('winds-sorted', f'forall(0, len({WSW}), lambda i: forall(i + 1, len({WSW}), lambda j: '
                     f'raw({WSW}[i].until_distance) <= raw({WSW}[j].until_distance)))'),
    ('never-ahead-no-segment-ending-beyond-the-projectile-has-been-left',
     f'forall(0, {WS}.current, lambda i: {UNT.format(k="i")} <= range_vector.x)'),
    ('until-distances-below-the-sentinel', f'forall(0, len({WSW}), lambda i: {UNT.format(k="i")} < Wind.MAX_DISTANCE_FEET)'),
    ('wind-in-force-is-the-cached-one', f'wind_vector.x == {WS}._last_vector_cache.x and wind_vector.y == '
                                        f'{WS}._last_vector_cache.y and wind_vector.z == {WS}._last_vector_cache.z'),
    ('filter-settings', f'{DF}.filter == filter_flags and {DF}.range_step == record_step and {DF}.time_step == time_step '
                        f'and {DF}.look_angle == self.look_angle'),
    ('filter-time-bookkeeping', f'{DF}.previous_time <= time and {DF}.time_of_last_record <= time'),
]

contract(f'{TC}::TrajectoryCalc._integrate', props=INTEGRATE_PROPS,
         params=dict(self=CALC, shot_info=SHOT, maximum_range=Real(lo=0), record_step=Real(lo=0),
                     filter_flags=Enum(0, 8, 31), time_step=Real(lo=0)),
         requires=[('curve-matches-table', 'len(self._curve) == len(self._TrajectoryCalc__mach_list)'),
                   ('table-ascending', 'forall(0, len(self._TrajectoryCalc__mach_list), lambda i: forall(i + 1, '
                                       'len(self._TrajectoryCalc__mach_list), lambda j: self._TrajectoryCalc__mach_list[i] < '
                                       'self._TrajectoryCalc__mach_list[j]))'),
                   ('gravity-vector-is-the-configured-gravity', 'self.gravity_vector.y == self._config.cGravityConstant'),
                   ('cant-is-a-rotation', 'self.cant_cosine * self.cant_cosine + self.cant_sine * self.cant_sine == 1')],
         loops={0: LoopContract(invariants=INV,
                                lemmas_end=[('time-step-is-positive', 'delta_time > 0')],
                                hypotheses_end=[('H-fwd-the-projectile-keeps-moving-down-range', 'range_vector.x >= head(range_vector.x)')], types={'ranges': ListOf(ROW).alternatives()[0], 'filter': Flags(), 'current_flag': Flags(),
                                              'seen_zero': Flags()})},
         raises={'RangeError': None},
         modifies=['*._defined_units'], prune=True, heavy=True,
         use={f'{TC}::_TrajectoryDataFilter.should_record': [
                  'range-row-exactly-at-the-record-distance', 'recorded-distance-is-the-last-multiple-not-beyond-the-projectile',
                  'no-multiple-is-skipped-when-a-step-advances-by-at-most-the-record-step', 'range-flag-and-bookkeeping',
                  'time-row-only-when-no-range-row-and-the-time-step-has-passed', 'other-rows-are-the-current-state',
                  'a-row-is-returned-exactly-when-a-requested-flag-is-raised', 'remembers-the-current-state-for-the-next-step',
                  'seen-flags', 'settings-untouched'],
              f'{TC}::create_trajectory_row': ['time-distance-height-are-the-state', 'density-drag-flag-passed-through',
                                               'mach-is-speed-over-speed-of-sound'],
              f'{TC}::TrajectoryCalc.drag_by_mach': [],
              f'{TC}::TrajectoryCalc.spin_drift': [],
              'py_ballisticcalc/conditions.py::Atmo.get_density_factor_and_mach_for_altitude': [
                  'density-ratio-is-never-negative-and-speed-of-sound-is-positive']})
