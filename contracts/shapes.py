"""Reusable input shapes."""
import py_ballisticcalc.unit as U
from py_ballisticcalc.unit import Unit
from pyvc.contract import Real, Int, Bool, Obj, Enum, Const, OneOf, Quantity, ListOf, Rec

LINEAR_ANGULAR = [Unit.Radian, Unit.Degree, Unit.MOA, Unit.Mil, Unit.MRad, Unit.Thousandth, Unit.OClock]
TANGENT_ANGULAR = [Unit.InchesPer100Yd, Unit.CmPer100m]


def Q(cls, *units, value=None):
    """quantity of dimension cls with symbolic magnitude; display unit ranges over ``units``"""
    return Quantity(cls, units=list(units), value=value)


def QDist(*units, value=None):
    return Q(U.Distance, *(units or (Unit.Inch, Unit.Meter)), value=value)


def QAng(*units, value=None):
    return Q(U.Angular, *(units or (Unit.Radian, Unit.Degree)), value=value)


def QVel(*units, value=None):
    return Q(U.Velocity, *(units or (Unit.MPS, Unit.FPS)), value=value)


def QTemp(*units, value=None):
    return Q(U.Temperature, *(units or (Unit.Fahrenheit, Unit.Celsius)), value=value)


def QPress(*units, value=None):
    return Q(U.Pressure, *(units or (Unit.MmHg, Unit.hPa)), value=value)


def QWeight(*units, value=None):
    return Q(U.Weight, *(units or (Unit.Grain, Unit.Gram)), value=value)
