"""Reusable input shapes."""
import py_ballisticcalc.unit as U
from py_ballisticcalc.unit import Unit
from pyvc.contract import Real, Int, Bool, Obj, Enum, Const, OneOf, Quantity, ListOf, Rec

LINEAR_ANGULAR = [Unit.Radian, Unit.Degree, Unit.MOA, Unit.Mil, Unit.MRad, Unit.Thousandth, Unit.OClock]
TANGENT_ANGULAR = [Unit.InchesPer100Yd, Unit.CmPer100m]


def Q(cls, *units, value=None):
    """quantity of dimension cls with symbolic magnitude; display unit ranges over ``units``"""
    return Quantity(cls, units=list(units), value=value)


def QDist(*units, value=None):
    return Q(U.Distance, *(units or (Unit.Inch, Unit.Meter)), value=value)


def QAng(*units, value=None):
    return Q(U.Angular, *(units or (Unit.Radian, Unit.Degree)), value=value)


def QVel(*units, value=None):
    return Q(U.Velocity, *(units or (Unit.MPS, Unit.FPS)), value=value)


def QTemp(*units, value=None):
    return Q(U.Temperature, *(units or (Unit.Fahrenheit, Unit.Celsius)), value=value)


def QPress(*units, value=None):
    return Q(U.Pressure, *(units or (Unit.MmHg, Unit.hPa)), value=value)


def QWeight(*units, value=None):
    return Q(U.Weight, *(units or (Unit.Grain, Unit.Gram)), value=value)


# ---------------------------------------------------------------------------------------
# a complete shot (every quantity built by its real constructor)
import py_ballisticcalc.trajectory_calc._trajectory_calc as _tc  # noqa: E402
from py_ballisticcalc.conditions import Atmo, Shot, Wind  # noqa: E402
from py_ballisticcalc.drag_model import DragModel, DragDataPoint  # noqa: E402
from py_ballisticcalc.munition import Weapon, Ammo  # noqa: E402
from py_ballisticcalc.vector import Vector  # noqa: E402
from pyvc.contract import Built  # noqa: E402

VEC = Rec(Vector, x=Real(), y=Real(), z=Real())
POINTS = ListOf(Obj(DragDataPoint, Mach=Real(), CD=Real()), minlen=3, frozen=True)
SMALL_ANGLE = Real(lo=-1.5, hi=1.5)


def config_shape(**over):
    f = dict(max_calc_step_size_feet=Real(lo=0, lo_open=True), chart_resolution=Real(), cZeroFindingAccuracy=Real(lo=0),
             cMinimumVelocity=Real(), cMaximumDrop=Real(), cMaxIterations=Int(lo=0), cGravityConstant=Real(hi=0, hi_open=True),
             cMinimumAltitude=Real())
    f.update(over)
    return Rec(_tc.Config, **f)


def atmo_shape(**over):
    f = dict(_altitude=QDist(Unit.Foot), _pressure=QPress(Unit.InHg, value=Real(lo=0, lo_open=True)),
             _temperature=QTemp(Unit.Fahrenheit), _powder_temp=QTemp(Unit.Celsius),
             _t0=Real(lo=-90, hi=60), _p0=Real(lo=0, lo_open=True), _a0=Real(lo=-2000, hi=40000), _mach=Real(lo=0, lo_open=True),
             _humidity=Real(lo=0, hi=1), _density_ratio=Real(lo=0), _initializing=Const(False))
    f.update(over)
    return Obj(Atmo, **f)


def dm_shape(**over):
    f = dict(BC=Real(lo=0, lo_open=True), drag_table=POINTS, length=QDist(Unit.Inch, value=Real(lo=0)),
             diameter=QDist(Unit.Inch, value=Real(lo=0)), weight=QWeight(Unit.Grain, value=Real(lo=0)))
    f.update(over)
    return Obj(DragModel, **f)


def ammo_shape(**over):
    f = dict(dm=dm_shape(), mv=QVel(Unit.FPS, value=Real(lo=0, lo_open=True)), powder_temp=QTemp(Unit.Celsius),
             temp_modifier=Real(), use_powder_sensitivity=Enum(False, True))
    f.update(over)
    return Obj(Ammo, **f)


def weapon_shape(**over):
    f = dict(sight_height=QDist(Unit.Inch), twist=QDist(Unit.Inch), zero_elevation=QAng(Unit.Radian, value=SMALL_ANGLE),
             sight=Const(None))
    f.update(over)
    return Obj(Weapon, **f)


def shot_shape(winds=None, **over):
    f = dict(look_angle=QAng(Unit.Radian, value=SMALL_ANGLE), relative_angle=QAng(Unit.Radian, value=SMALL_ANGLE),
             cant_angle=QAng(Unit.Radian, value=Real(lo=-3.2, hi=3.2)), weapon=weapon_shape(), ammo=ammo_shape(),
             atmo=atmo_shape(), _winds=winds if winds is not None else Const(None))
    f.update(over)
    return Obj(Shot, **f)
