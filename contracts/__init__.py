"""Sidecar contracts for the functions of /repo (one module per repository module / property)."""
