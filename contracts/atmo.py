"""C08 - conditions.py Atmo / Vacuum: branch structure, station values, vacuum, humidity normalisation.
(The numeric closeness to the ISA and the monotonicity clauses are decided by the interval back end on the
expressions the engine extracts from these same functions: props/C08.py.)"""
import py_ballisticcalc.conditions as C
from py_ballisticcalc.unit import Unit

from pyvc.contract import contract, Real, Obj, Enum, Const, OneOf, Built
from .shapes import atmo_shape, QDist, QTemp, QPress

CF = 'py_ballisticcalc/conditions.py'
DISPLAY_ONLY = ['*._defined_units']

ATMO = atmo_shape(_t0=Real(lo=-90, hi=60), _density_ratio=Real(lo=0), _humidity=Real(lo=0, hi=1))

# calculate_air_density is used through its contract: the box is the statement's (T -60..60 C, p 500..1100 hPa
# widened to the pressures of the troposphere, humidity 0..1); that no denominator vanishes on that box
# (T_K > 0, Z within 1e-3 of 1) is decided by the interval back end (props/C08.py: 'cipm-denominators').
contract(f'{CF}::Atmo.calculate_air_density', props=(),
         params=dict(t=Real(lo=-90, hi=60), p=Real(lo=150, hi=1100), humidity=Real(lo=0, hi=1)),
         # no precondition is imposed on callers and nothing is promised about the value (callers only store it);
         # its own arithmetic safety on the stated box is the interval obligation 'cipm-denominators'
         # positivity on the box is what the interval obligation 'cipm-denominators' (props/C08.py) establishes for this
         # very function: the clause is used here as its contract, discharged there
         ensures=[('positive-on-the-stated-box',
                   'implies(-90 <= t <= 60 and 150 <= p <= 1100 and 0 <= humidity <= 1, result > 0)', 'route')],
         modifies=[], modular=True, result_shape=Real())

contract(f'{CF}::Atmo.humidity', which='setter', props=('C08',),
         params=dict(self=atmo_shape(_initializing=Enum(False, True), _t0=Real(lo=-90, hi=60),
                                     _p0=Real(lo=150, hi=1100)), value=Real()),
         raises={'ValueError': 'value < 0 or value > 100'},
         ensures=[('percent-and-fraction-mean-the-same', 'self._humidity == (value / 100 if value > 1 else value)'),
                  ('stored-as-a-fraction', '0 <= self._humidity <= 1')],
         modifies=['self._humidity', 'self._density_ratio'])

TK = '(max(Atmo.cLowestTempC, (altitude - self._a0) * cLapseRateKperFoot + self._t0) + cDegreesCtoK)'
contract(f'{CF}::Atmo.get_density_factor_and_mach_for_altitude', props=('C08', 'C01'),
         params=dict(self=ATMO, altitude=Real(lo=-2000, hi=40000)),
         ensures=[
             ('within-30-ft-the-stations-own-values',
              'implies(abs(self._a0 - altitude) < 30, result[0] == self._density_ratio and result[1] == self._mach)'),
             ('elsewhere-speed-of-sound-from-lapse-rate-temperature',
              f'implies(abs(self._a0 - altitude) >= 30, result[1] == math.sqrt({TK}) * cSpeedOfSoundMetric * 3.2808399)'),
             ('elsewhere-density-scaled-by-barometric-pressure-over-temperature',
              f'implies(abs(self._a0 - altitude) >= 30, result[0] == self._density_ratio * '
              f'((self._t0 + cDegreesCtoK) * (self._p0 * math.pow(1 + cLapseRateKperFoot * (altitude - self._a0) / '
              f'(self._t0 + cDegreesCtoK), cPressureExponent))) / (self._p0 * {TK}))'),
             ('zero-density-station-gives-zero-density-everywhere',
              'implies(self._density_ratio == 0, result[0] == 0)'),
             ('density-ratio-is-never-negative-and-speed-of-sound-is-positive', 'result[0] >= 0 and result[1] > 0'),
         ],
         modifies=[], modular=True, functional='atmo_at', functional_outputs=2)

contract(f'{CF}::Atmo.temperature_at_altitude', props=('C08',),
         params=dict(self=ATMO, altitude=Real()),
         ensures=[('lapse-rate-from-station-floored-at-lowest-modelled-temperature',
                   'result == max(Atmo.cLowestTempC, (altitude - self._a0) * cLapseRateKperFoot + self._t0)')],
         modifies=[])

contract(f'{CF}::Atmo.standard_temperature', props=('C08',),
         params=dict(altitude=QDist(Unit.Foot, Unit.Meter, value=Real(lo=-450, hi=36000))),
         requires=[('tropospheric', '-1400 <= raw(altitude) / 12 <= 36000')],
         ensures=[('isa-temperature-to-1e-4',
                   'approx(kelvin_of(raw(result), Unit.Fahrenheit), 288.15 - 0.0065 * (raw(altitude) * 0.0254), 0.0001)')],
         modifies=DISPLAY_ONLY)

contract(f'{CF}::Atmo.machF', props=('C08',), params=dict(fahrenheit=Real(lo=-450, hi=200)),
         ensures=[('speed-of-sound-root-of-absolute-temperature',
                   'result == math.sqrt(fahrenheit + cDegreesFtoR) * cSpeedOfSoundImperial')], modifies=[])
contract(f'{CF}::Atmo.machK', props=('C08',), params=dict(kelvin=Real(lo=0)),
         ensures=[('speed-of-sound-root-of-absolute-temperature', 'result == math.sqrt(kelvin) * cSpeedOfSoundMetric')],
         modifies=[])

# Vacuum: density ratio zero after construction, and the humidity setter cannot bring it back
contract(f'{CF}::Vacuum.__init__', props=('C08',),
         params=dict(self=Obj(C.Vacuum), altitude=OneOf(Const(None), QDist(Unit.Foot, value=Real(lo=-1400, hi=36000))),
                     temperature=OneOf(Const(None), QTemp(Unit.Celsius, value=Real(lo=-60, hi=60)))),
         ensures=[('vacuum-density-is-exactly-zero', 'self._density_ratio == 0'),
                  ('pressure-reads-zero', 'raw(self._pressure) == 0')],
         modifies=['self.*'] + DISPLAY_ONLY)
contract(f'{CF}::Vacuum.update_density_ratio', props=('C08',),
         params=dict(self=Obj(C.Vacuum, _density_ratio=Real(), _t0=Real(), _p0=Real(), _humidity=Real())),
         ensures=[('no-op', 'self._density_ratio == old(self._density_ratio)')], modifies=[])


# history: the prediction after a humidity change is that of the station's *current* state (no stale value)
from pyvc.contract import REGISTRY  # noqa: E402
_g = REGISTRY[f'{CF}::Atmo.get_density_factor_and_mach_for_altitude']
contract('verif:contracts/specfn.py::query_set_humidity_query', props=('C08', 'C10'),
         params=dict(atmo=atmo_shape(_t0=Real(lo=-90, hi=60), _p0=Real(lo=150, hi=1100), _density_ratio=Real(lo=0)),
                     h1=Real(lo=-2000, hi=40000), hum=Real(lo=0, hi=100), h2=Real(lo=-2000, hi=40000)),
         ensures=[(cl.label, cl.src.replace('self.', 'atmo.').replace('altitude', 'h2')) for cl in _g.ensures],
         modifies=['atmo._humidity', 'atmo._density_ratio', 'atmo._density_k'],
         inline=[f'{CF}::Atmo.get_density_factor_and_mach_for_altitude'])
