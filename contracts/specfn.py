"""Specification functions (DESIGN.md Appendix C), written from the property statements.

Plain Python in the engine's subset: the engine *interprets* this source symbolically
(exactly as it does repository code) and CPython runs it natively during replay, so both
uses share one text."""
import math

from pyvc.rt import implies, forall, exists, approx, close, eq, ite, opaque


@opaque
def parabola_through(x1, y1, x2, y2, x3, y3, a, b, c):
    """a*x^2 + b*x + c passes through the three points"""
    return (eq(a * x1 * x1 + b * x1 + c, y1) and eq(a * x2 * x2 + b * x2 + c, y2)
            and eq(a * x3 * x3 + b * x3 + c, y3))


@opaque
def line_through(x1, y1, x2, y2, b, c):
    return eq(b * x1 + c, y1) and eq(b * x2 + c, y2)


def strictly_ascending(xs, n):
    return forall(0, n - 1, lambda i: xs[i] < xs[i + 1])
