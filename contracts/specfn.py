"""Specification functions (DESIGN.md Appendix C), written from the property statements.

Plain Python in the engine's subset: the engine *interprets* this source symbolically
(exactly as it does repository code) and CPython runs it natively during replay, so both
uses share one text."""
import math

import py_ballisticcalc  # noqa: F401  (specifications name module-level settings through the package)

from pyvc.rt import implies, forall, exists, approx, close, eq, ite, opaque


@opaque
def parabola_through(x1, y1, x2, y2, x3, y3, a, b, c):
    """a*x^2 + b*x + c passes through the three points"""
    return (eq(a * x1 * x1 + b * x1 + c, y1) and eq(a * x2 * x2 + b * x2 + c, y2)
            and eq(a * x3 * x3 + b * x3 + c, y3))


@opaque
def line_through(x1, y1, x2, y2, b, c):
    return eq(b * x1 + c, y1) and eq(b * x2 + c, y2)


def strictly_ascending(xs, n):
    return forall(0, n - 1, lambda i: xs[i] < xs[i + 1])


# ---------------------------------------------------------------------------------------
# C06: SI definitions, written from the property statement (exact inch, pound, grain, nautical
# mile, standard gravity, conventional mmHg; affine temperature scales; tangent-based
# inch-per-100-yd and cm-per-100-m), independent of the factor chains in unit.py.
from fractions import Fraction  # noqa: E402
from py_ballisticcalc.unit import Unit  # noqa: E402

PI = Fraction(math.pi)          # the binary64 value the package itself uses for pi
INCH = Fraction(254, 10000)     # m, exact
POUND = Fraction(45359237, 100000000)   # kg, exact
G_N = Fraction(980665, 100000)  # m/s^2, standard gravity
MMHG = Fraction(133322387415, 1000000000)  # Pa, conventional millimetre of mercury
NMI = Fraction(1852)            # m

SI_FACTOR = {
    # distance: metres
    Unit.Inch: INCH, Unit.Foot: 12 * INCH, Unit.Yard: 36 * INCH, Unit.Mile: 63360 * INCH, Unit.NauticalMile: NMI,
    Unit.Millimeter: Fraction(1, 1000), Unit.Centimeter: Fraction(1, 100), Unit.Meter: Fraction(1),
    Unit.Kilometer: Fraction(1000), Unit.Line: INCH / 10,
    # pressure: pascal
    Unit.MmHg: MMHG, Unit.InHg: MMHG * Fraction(254, 10), Unit.Bar: Fraction(100000), Unit.hPa: Fraction(100),
    Unit.PSI: POUND * G_N / (INCH * INCH),
    # weight: kilogram (newton = weight of that mass under standard gravity)
    Unit.Grain: POUND / 7000, Unit.Ounce: POUND / 16, Unit.Gram: Fraction(1, 1000), Unit.Pound: POUND,
    Unit.Kilogram: Fraction(1), Unit.Newton: 1 / G_N,
    # velocity: m/s
    Unit.MPS: Fraction(1), Unit.KMH: Fraction(10, 36), Unit.FPS: 12 * INCH, Unit.MPH: 63360 * INCH / 3600,
    Unit.KT: NMI / 3600,
    # energy: joule
    Unit.FootPound: 12 * INCH * POUND * G_N, Unit.Joule: Fraction(1),
    # angle: radian (linear units)
    Unit.Radian: Fraction(1), Unit.Degree: PI / 180, Unit.MOA: PI / 10800, Unit.Mil: 2 * PI / 6400,
    Unit.MRad: Fraction(1, 1000), Unit.Thousandth: 2 * PI / 6000, Unit.OClock: 2 * PI / 12,
}
BASE_UNIT = {'Distance': Unit.Inch, 'Pressure': Unit.MmHg, 'Weight': Unit.Grain, 'Velocity': Unit.MPS,
             'Energy': Unit.FootPound, 'Angular': Unit.Radian, 'Temperature': Unit.Fahrenheit}
TANGENT_RUN = {Unit.InchesPer100Yd: Fraction(3600), Unit.CmPer100m: Fraction(10000)}   # 100 yd in inch, 100 m in cm
DIM_UNITS = {
    'Distance': (Unit.Inch, Unit.Foot, Unit.Yard, Unit.Mile, Unit.NauticalMile, Unit.Millimeter, Unit.Centimeter,
                 Unit.Meter, Unit.Kilometer, Unit.Line),
    'Pressure': (Unit.MmHg, Unit.InHg, Unit.Bar, Unit.hPa, Unit.PSI),
    'Weight': (Unit.Grain, Unit.Ounce, Unit.Gram, Unit.Pound, Unit.Kilogram, Unit.Newton),
    'Velocity': (Unit.MPS, Unit.KMH, Unit.FPS, Unit.MPH, Unit.KT),
    'Energy': (Unit.FootPound, Unit.Joule),
    'Angular': (Unit.Radian, Unit.Degree, Unit.MOA, Unit.Mil, Unit.MRad, Unit.Thousandth, Unit.InchesPer100Yd,
                Unit.CmPer100m, Unit.OClock),
    'Temperature': (Unit.Fahrenheit, Unit.Celsius, Unit.Kelvin, Unit.Rankin),
}
ZERO_C = Fraction(27315, 100)      # K
ZERO_F = Fraction(45967, 100)      # degR


def unit_in_dimension(u, dim):
    return u in DIM_UNITS[dim]


def kelvin_of(v, u):
    """absolute temperature (K) of a reading v on scale u"""
    if u == Unit.Kelvin:
        return v
    if u == Unit.Celsius:
        return v + ZERO_C
    if u == Unit.Rankin:
        return v * 5 / 9
    return (v + ZERO_F) * 5 / 9


def reading_of(k, u):
    """reading on scale u of the absolute temperature k (K)"""
    if u == Unit.Kelvin:
        return k
    if u == Unit.Celsius:
        return k - ZERO_C
    if u == Unit.Rankin:
        return k * 9 / 5
    return k * 9 / 5 - ZERO_F


def to_base_ok(dim, v, u, r):
    """r is the magnitude, in the dimension's base unit, of v expressed in unit u - to 1e-6 relative
    (temperature scales are affine, so 'relative' is taken relative to the absolute temperature,
    floored at 1 K: at exactly 0 K the binary64 literal 273.15 already differs from the decimal
    one by 1e-14, which no purely relative bound admits; tangent units: exact defining relation)"""
    if dim == 'Temperature':
        k = kelvin_of(v, u)
        return abs(r - reading_of(k, Unit.Fahrenheit)) <= Fraction(1, 1000000) * max(abs(k), 1) * 9 / 5
    if u in TANGENT_RUN:
        return -PI / 2 - Fraction(1, 1000) < r < PI / 2 + Fraction(1, 1000) and eq(math.tan(r) * TANGENT_RUN[u], v)
    return approx(r, v * SI_FACTOR[u] / SI_FACTOR[BASE_UNIT[dim]], Fraction(1, 1000000))


def from_base_ok(dim, r, u, v):
    """v is the reading in unit u of the base-unit magnitude r - to 1e-6 relative"""
    if dim == 'Temperature':
        k = kelvin_of(r, Unit.Fahrenheit)
        return abs(v - reading_of(k, u)) <= Fraction(1, 1000000) * max(abs(k), 1) * (
            1 if u in (Unit.Kelvin, Unit.Celsius) else Fraction(9, 5))
    if u in TANGENT_RUN:
        return eq(v, math.tan(r) * TANGENT_RUN[u])
    return approx(v, r * SI_FACTOR[BASE_UNIT[dim]] / SI_FACTOR[u], Fraction(1, 1000000))


def angle_in_one_turn(v, u):
    """the statement's 'angles within one turn' for a reading v in angular unit u"""
    if u in TANGENT_RUN:
        return True
    return abs(v) * SI_FACTOR[u] <= 2 * PI


def raw_angle_in_domain(r, u):
    if u in TANGENT_RUN:
        return -PI / 2 < r < PI / 2
    return abs(r) <= 2 * PI


def to_then_from(q, v, u):
    """lemma harness: unit -> base -> unit"""
    return q.from_raw(q.to_raw(v, u), u)


def from_then_to(q, r, u):
    """lemma harness: base -> unit -> base"""
    return q.to_raw(q.from_raw(r, u), u)


def a_to_b_to_c(q, v, a, b, c):
    """lemma harness (transitivity): A -> B -> C"""
    vb = q.from_raw(q.to_raw(v, a), b)
    return q.from_raw(q.to_raw(vb, b), c)


def a_to_c(q, v, a, c):
    return q.from_raw(q.to_raw(v, a), c)


# ---------------------------------------------------------------------------------------
# C17 / C19 helpers
from py_ballisticcalc.unit import PreferredUnits  # noqa: E402
from pyvc.rt import is_quantity, raw  # noqa: E402


def celsius_of_raw_f(f):
    """temperature magnitudes are stored in Fahrenheit"""
    return (f - 32) * 5 / 9


def celsius_of_arg(t):
    """Celsius reading of a temperature argument: a quantity, or a bare number read in the
    currently preferred temperature unit"""
    if is_quantity(t):
        return celsius_of_raw_f(raw(t))
    return kelvin_of(t, PreferredUnits.temperature) - ZERO_C


def mps_of_arg(v):
    if is_quantity(v):
        return raw(v)
    return v * SI_FACTOR[PreferredUnits.velocity]


def inch_of_arg(d):
    if is_quantity(d):
        return raw(d)
    return d * SI_FACTOR[PreferredUnits.distance] / INCH


def velocity_at(v0, t0, modifier, t):
    """the statement's linear law: equals the stated velocity v0 at the stated powder temperature
    t0 and changes by modifier x v0 per 15 C"""
    return v0 + modifier * (v0 / 15) * (t - t0)


def effective_click(focal_plane, nominal_raw, unit, scale_inch, target_inch, magnification):
    """the statement's effective click size (an angle): nominal for first focal plane; nominal / magnification
    for LWIR; nominal x (calibration distance / target distance) x magnification for second focal plane -
    whatever unit the click size is displayed in"""
    if focal_plane == 'FFP':
        return nominal_raw
    if focal_plane == 'LWIR':
        return nominal_raw / magnification
    return nominal_raw * (scale_inch / target_inch * magnification)


# ---------------------------------------------------------------------------------------
# C16 / C20
def row_eq(a, b):
    """two trajectory rows carry the same data"""
    return (a.time == b.time and raw(a.distance) == raw(b.distance) and raw(a.velocity) == raw(b.velocity)
            and a.mach == b.mach and raw(a.height) == raw(b.height) and raw(a.target_drop) == raw(b.target_drop)
            and raw(a.drop_adj) == raw(b.drop_adj) and raw(a.windage) == raw(b.windage)
            and raw(a.windage_adj) == raw(b.windage_adj) and raw(a.look_distance) == raw(b.look_distance)
            and raw(a.angle) == raw(b.angle) and a.density_factor == b.density_factor and a.drag == b.drag
            and raw(a.energy) == raw(b.energy) and raw(a.ogw) == raw(b.ogw) and a.flag == b.flag)


# ---------------------------------------------------------------------------------------
# per-shot state of the solver (C01/C05/C09/C10/C17): what _init_trajectory must derive from the shot
def miller_sg(twist_in, length_in, diameter_in, weight_gr, mv_fps, temp_f, pressure_mmhg):
    """Miller stability with the velocity and atmosphere corrections; 0 when twist or bullet
    dimensions (or pressure) are not given"""
    if twist_in == 0 or length_in == 0 or diameter_in == 0 or pressure_mmhg == 0:
        return 0
    t = abs(twist_in) / diameter_in
    ln = length_in / diameter_in
    sd = 30 * weight_gr / (t * t * diameter_in * diameter_in * diameter_in * ln * (1 + ln * ln))
    fv = math.pow(mv_fps / 2800, 1.0 / 3.0)
    ftp = ((temp_f + 460) / (59 + 460)) * (29.92 / (pressure_mmhg / 25.4))
    return sd * fv * ftp


def launch_velocity_mps(ammo, powder_temp_q):
    """velocity the solver launches with: the stated one, or - sensitivity enabled - the linear law
    evaluated at the atmosphere's powder temperature"""
    if not ammo.use_powder_sensitivity:
        return raw(ammo.mv)
    return velocity_at(raw(ammo.mv), celsius_of_raw_f(raw(ammo.powder_temp)), ammo.temp_modifier,
                       celsius_of_raw_f(raw(powder_temp_q)))


def init_once(calc, shot):
    """history harness: a fresh calculator initialised for a shot"""
    calc._init_trajectory(shot)
    return calc


def init_twice(calc, shot_a, shot_b):
    """history harness: a calculator that served another shot before (its state after the second
    initialisation must be a function of the second shot only)"""
    calc._init_trajectory(shot_a)
    calc._init_trajectory(shot_b)
    return calc


def init_edit_init(calc, shot, k, cd):
    """history harness: the shot's drag table is edited in place between two uses of one calculator"""
    calc._init_trajectory(shot)
    shot.ammo.dm.drag_table[k].CD = cd
    calc._init_trajectory(shot)
    return calc


# ---------------------------------------------------------------------------------------
# C13 harnesses
def hash_pair(q, r):
    return (hash(q), hash(r))


def hash_before_after_convert(q, u):
    h0 = hash(q)
    q << u
    return (h0, hash(q))


def read_convert_read(q, u, v):
    """reading in unit u before and after the display unit is changed to v"""
    a = q >> u
    q << v
    b = q >> u
    return (a, b, q.unit_value)


# ---------------------------------------------------------------------------------------
# C14: clamped piecewise-linear interpolation
@opaque
def pl_sorted_ok(xp: 'list', yp: 'list', n: int, v, y):
    """y is the clamped piecewise-linear interpolant, at v, of the points (xp[k], yp[k]), k < n, given
    in non-decreasing xp order"""
    if v <= xp[0]:
        return eq(y, yp[0])
    if v >= xp[n - 1]:
        return eq(y, yp[n - 1])
    return exists(0, n - 1, lambda m: xp[m] <= v < xp[m + 1] and
                  eq(y, yp[m] + (yp[m + 1] - yp[m]) / (xp[m + 1] - xp[m]) * (v - xp[m])))


def pl_points_ok(pts, n, v, y):
    """the same interpolant defined without reference to any order of the points pts[k] (objects with
    .Mach and .BC): below the lowest / above the highest Mach it is that point's BC; otherwise the line
    through two points p, q that are neighbours in Mach (no point strictly between them) with
    Mach_p <= v < Mach_q"""
    lowest = exists(0, n, lambda p: v <= pts[p].Mach and eq(y, pts[p].BC) and
                    forall(0, n, lambda k: pts[p].Mach <= pts[k].Mach))
    highest = exists(0, n, lambda p: v >= pts[p].Mach and eq(y, pts[p].BC) and
                     forall(0, n, lambda k: pts[k].Mach <= pts[p].Mach))
    between = exists(0, n, lambda p: exists(0, n, lambda q: pts[p].Mach <= v < pts[q].Mach and
                     forall(0, n, lambda k: pts[k].Mach <= pts[p].Mach or pts[k].Mach >= pts[q].Mach) and
                     eq(y, pts[p].BC + (pts[q].BC - pts[p].BC) / (pts[q].Mach - pts[p].Mach) * (v - pts[p].Mach))))
    return lowest or highest or between


# ---------------------------------------------------------------------------------------
# C08 harnesses (the engine extracts closed-form expressions from the real code through these)
from py_ballisticcalc.conditions import Atmo  # noqa: E402
from py_ballisticcalc.constants import *  # noqa: E402,F401,F403
from py_ballisticcalc.unit import Distance, Temperature, Pressure  # noqa: E402


def h_standard_station(h_ft):
    """(temperature C, pressure hPa, density ratio, speed of sound fps) of the standard atmosphere at h_ft"""
    a = Atmo.icao(Distance.Foot(h_ft))
    return (a._t0, a._p0, a._density_ratio, a._mach)


def h_query_from_station(a0_ft, h_ft):
    """(density ratio, speed of sound) predicted at h_ft by the standard station created at a0_ft"""
    a = Atmo.icao(Distance.Foot(a0_ft))
    return a.get_density_factor_and_mach_for_altitude(h_ft)


def h_density_ratio(t_c, p_hpa, hum):
    return Atmo.calculate_air_density(t_c, p_hpa, hum) / 1.2250


def h_shortcut_jump(t_c, d_ft):
    """density and speed-of-sound predicted d_ft away from a station at temperature t_c, relative to the
    station's own values (independent of station pressure, altitude and humidity: they cancel)"""
    a = Atmo(Distance.Foot(0), Pressure.hPa(1000), Temperature.Celsius(t_c), 0.0)
    r = a.get_density_factor_and_mach_for_altitude(d_ft)
    return (r[0] / a._density_ratio, r[1] / a._mach)


def h_station_tp_at(a0_ft, h_ft):
    """(temperature C, pressure hPa) that the standard station created at a0_ft predicts for altitude h_ft"""
    a = Atmo.icao(Distance.Foot(a0_ft))
    return (a.temperature_at_altitude(h_ft), a.pressure_at_altitude(h_ft))


def h_density_prediction_ratio(t0, p0, t, p):
    """predicted dry-air density ratio at conditions (t, p) from a station at (t0, p0), over the density ratio a
    station created at (t, p) itself reports"""
    station = Atmo.calculate_air_density(t0, p0, 0.0) / 1.2250
    predicted = station * ((t0 + 273.15) * p) / (p0 * (t + 273.15))
    return predicted / (Atmo.calculate_air_density(t, p, 0.0) / 1.2250)


def query_set_humidity_query(atmo, h1, hum, h2):
    """history harness (C08/C10): an atmosphere is queried, its humidity is changed, it is queried again"""
    atmo.get_density_factor_and_mach_for_altitude(h1)
    atmo.humidity = hum
    return atmo.get_density_factor_and_mach_for_altitude(h2)


# ---------------------------------------------------------------------------------------
# C07 harnesses: preferred units only choose how bare numbers are read
from py_ballisticcalc.conditions import Wind, Shot  # noqa: E402
from py_ballisticcalc.trajectory_calc._trajectory_calc import _TrajectoryDataFilter  # noqa: E402
from py_ballisticcalc.vector import Vector  # noqa: E402
from py_ballisticcalc.munition import Weapon, Ammo, Sight  # noqa: E402
from py_ballisticcalc.drag_model import DragModel, BCPoint, DragModelMultiBC  # noqa: E402
from py_ballisticcalc.unit import Velocity, Angular, Weight  # noqa: E402


def mk_atmo(**kw):
    return Atmo(**kw)


def mk_icao(**kw):
    return Atmo.icao(**kw)


def mk_wind(**kw):
    return Wind(**kw)


def mk_weapon(**kw):
    return Weapon(**kw)


def mk_ammo(**kw):
    mv = kw.pop('mv', Velocity.MPS(800))
    return Ammo(None, mv, **kw)


def mk_shot(**kw):
    return Shot(None, None, atmo=False, winds=False, **kw)


def mk_sight(**kw):
    h = kw.pop('h_click_size', Angular.Mil(0.1))
    v = kw.pop('v_click_size', Angular.Mil(0.1))
    return Sight('FFP', kw.pop('scale_factor', None), h, v)


def mk_dragmodel(**kw):
    return DragModel(0.3, [{'Mach': 0.0, 'CD': 0.3}, {'Mach': 1.0, 'CD': 0.4}, {'Mach': 2.0, 'CD': 0.3}], **kw)


def mk_bcpoint(**kw):
    return BCPoint(0.3, None, **kw)


def bare_vs_quantity(ctor, pname, slot, unit, x):
    """the object built from the bare number x (read in the preferred unit of `slot`, here set to `unit`) and the
    object built from the explicit quantity unit(x)"""
    saved = getattr(PreferredUnits, slot)
    setattr(PreferredUnits, slot, unit)
    a = ctor(**{pname: x})
    b = ctor(**{pname: unit(x)})
    setattr(PreferredUnits, slot, saved)
    return (a, b)


def bare_under_two_settings(ctor, pname, slot, unit_a, unit_b, x):
    """history: the same bare number x given under two successive preferred-unit settings in one process, next to the
    explicit quantities it must mean (the setting in force at each call decides, not the one seen first)"""
    saved = getattr(PreferredUnits, slot)
    setattr(PreferredUnits, slot, unit_a)
    a1 = ctor(**{pname: x})
    b1 = ctor(**{pname: unit_a(x)})
    setattr(PreferredUnits, slot, unit_b)
    a2 = ctor(**{pname: x})
    b2 = ctor(**{pname: unit_b(x)})
    setattr(PreferredUnits, slot, saved)
    return (a1, b1, a2, b2)


def quantity_under_two_settings(ctor, pname, slot, unit_a, unit_b, q):
    """the object built from the explicit quantity q under two different preferred-unit settings"""
    saved = getattr(PreferredUnits, slot)
    setattr(PreferredUnits, slot, unit_a)
    a = ctor(**{pname: q})
    setattr(PreferredUnits, slot, unit_b)
    b = ctor(**{pname: q})
    setattr(PreferredUnits, slot, saved)
    return (a, b)


def sfp_clicks_under_two_settings(unit_a, unit_b, h, v, scale, target, drop, windage, magnification):
    """second-focal-plane clicks from explicit quantities under two preferred adjustment units"""
    saved = PreferredUnits.adjustment
    PreferredUnits.adjustment = unit_a
    r1 = Sight('SFP', scale, h, v).get_adjustment(target, drop, windage, magnification)
    PreferredUnits.adjustment = unit_b
    r2 = Sight('SFP', scale, h, v).get_adjustment(target, drop, windage, magnification)
    PreferredUnits.adjustment = saved
    return (r1, r2)


def powder_sens_bare_vs_quantity(slot, unit, which, x, other):
    """Ammo.calc_powder_sens with one argument given as a bare number (read in the preferred unit) and as the
    explicit quantity; `other` is the other argument (a quantity)"""
    saved = getattr(PreferredUnits, slot)
    setattr(PreferredUnits, slot, unit)
    a = Ammo(None, Velocity.MPS(800), Temperature.Celsius(15))
    b = Ammo(None, Velocity.MPS(800), Temperature.Celsius(15))
    if which == 'temperature':
        r1 = a.calc_powder_sens(other, x)
        r2 = b.calc_powder_sens(other, unit(x))
    else:
        r1 = a.calc_powder_sens(x, other)
        r2 = b.calc_powder_sens(unit(x), other)
    setattr(PreferredUnits, slot, saved)
    return (r1, r2)


def velocity_for_temp_bare_vs_quantity(unit, x, modifier):
    saved = PreferredUnits.temperature
    PreferredUnits.temperature = unit
    a = Ammo(None, Velocity.MPS(800), Temperature.Celsius(15), modifier, True)
    r1 = a.get_velocity_for_temp(x)
    r2 = a.get_velocity_for_temp(unit(x))
    PreferredUnits.temperature = saved
    return (r1, r2)


def mk_multibc(**kw):
    return DragModelMultiBC([BCPoint(0.3, 1.0)], [{'Mach': 0.0, 'CD': 0.3}, {'Mach': 1.0, 'CD': 0.4},
                                                  {'Mach': 2.0, 'CD': 0.3}], **kw)


# ---------------------------------------------------------------------------------------
# C01: the stated vector field, written from the property statement
def air_speed(v, w):
    return math.sqrt((v.x - w.x) * (v.x - w.x) + (v.y - w.y) * (v.y - w.y) + (v.z - w.z) * (v.z - w.z))


def retardation(calc, atmo, p_y, sigma):
    """(air density ratio at the projectile's altitude) x (air-relative speed) x (drag function of the air-relative
    Mach number / BC): the scalar that multiplies the air-relative velocity in the acceleration"""
    rc = atmo.get_density_factor_and_mach_for_altitude(calc.alt0 + p_y)
    return rc[0] * sigma * calc.drag_by_mach(sigma / rc[1])


# ---------------------------------------------------------------------------------------
# C02: the end height of a zeroing run, as a function of the barrel elevation used (for a fixed shot and range).
from pyvc.rt import uninterpreted  # noqa: E402


@uninterpreted
def zero_run_height(barrel_elevation, horizontal_range):
    """height (ft) of the single row returned by _integrate(shot, R, R, NONE) when fired with that elevation"""
    raise NotImplementedError('uninterpreted specification function')


# ---------------------------------------------------------------------------------------
# C15 history harness: a filter built by its real constructor sees four successive Mach numbers
def mach_flags_over_four_steps(v1, v2, v3, v4):
    """MACH flag raised at steps 2, 3, 4 of a filter that sees speeds v1..v4 (speed of sound 1)"""
    f = _TrajectoryDataFilter(31, 100.0, Vector(0.0, 0.0, 0.0), Vector(1.0, 0.0, 0.0))
    f.check_mach_crossing(v1, 1.0)
    f.clear_current_flag()
    f.check_mach_crossing(v2, 1.0)
    a = (f.current_flag & 4) != 0
    f.clear_current_flag()
    f.check_mach_crossing(v3, 1.0)
    b = (f.current_flag & 4) != 0
    f.clear_current_flag()
    f.check_mach_crossing(v4, 1.0)
    c = (f.current_flag & 4) != 0
    return (a, b, c)


def zero_flags_over_three_points(sight_height_neg, look, y1, y2, y3):
    """ZERO_UP / ZERO_DOWN flags at three successive points x = 1, 2, 3 of a filter set up for a muzzle below the sight
    line (height = -sight_height_neg < 0) and a barrel above it"""
    f = _TrajectoryDataFilter(31, 100.0, Vector(0.0, -sight_height_neg, 0.0), Vector(1.0, 0.0, 0.0))
    f.setup_seen_zero(-sight_height_neg, look + 0.01, look)
    out = []
    for x, y in ((1.0, y1), (2.0, y2), (3.0, y3)):
        f.clear_current_flag()
        f.check_zero_crossing(Vector(x, y, 0.0))
        out.append(f.current_flag & 3)
    return (out[0], out[1], out[2])


# ---------------------------------------------------------------------------------------
# C17 history harnesses: the ammunition is used (a velocity is asked for) BEFORE it is calibrated or edited;
# what it answers afterwards must be what a freshly built ammunition with the same data answers
def velocity_after_use_then_calibration(v0, t0, v1, t1, t_query):
    """real constructor; ask a velocity; calibrate from a second measurement; ask at the second temperature"""
    a = Ammo(None, Velocity.MPS(v0), Temperature.Celsius(t0), 0, True)
    a.get_velocity_for_temp(Temperature.Celsius(t_query))
    a.calc_powder_sens(Velocity.MPS(v1), Temperature.Celsius(t1))
    return a.get_velocity_for_temp(Temperature.Celsius(t1))


def velocity_after_use_then_edit(v0, t0, m0, v0b, m1, t_query):
    """real constructor; ask a velocity; the user states another velocity and modifier; ask again - against a fresh
    ammunition built with the edited data"""
    a = Ammo(None, Velocity.MPS(v0), Temperature.Celsius(t0), m0, True)
    a.get_velocity_for_temp(Temperature.Celsius(t_query))
    a.mv = Velocity.MPS(v0b)
    a.temp_modifier = m1
    b = Ammo(None, Velocity.MPS(v0b), Temperature.Celsius(t0), m1, True)
    return (a.get_velocity_for_temp(Temperature.Celsius(t_query)), b.get_velocity_for_temp(Temperature.Celsius(t_query)))


# ---------------------------------------------------------------------------------------
# C18 history harnesses: the global default-step setter governs calculators created AFTERWARDS and no others
from py_ballisticcalc.trajectory_calc import set_global_max_calc_step_size, reset_globals  # noqa: E402
from py_ballisticcalc.interface_config import create_interface_config  # noqa: E402


def default_step_of_a_configuration_created_after_the_setter(v):
    """set the global default step to v feet, then create a configuration that does not name a step"""
    set_global_max_calc_step_size(Distance.Foot(v))
    c = create_interface_config(None)
    reset_globals()
    return c.max_calc_step_size_feet


def step_of_a_configuration_created_before_the_setter(v):
    """a configuration created before the setter is called keeps the step it was created with"""
    c = create_interface_config(None)
    before = c.max_calc_step_size_feet
    set_global_max_calc_step_size(Distance.Foot(v))
    after = c.max_calc_step_size_feet
    reset_globals()
    return (before, after)


# ---------------------------------------------------------------------------------------
# C17: "the atmosphere's powder temperature (air temperature unless given)"
def atmo_powder_temperature(temperature, powder_t):
    """the real constructor: an atmosphere built with the given air temperature and (optional) powder temperature"""
    return Atmo(temperature=temperature, powder_t=powder_t)


# ---------------------------------------------------------------------------------------
# C09 history harness: drag look-ups on a really initialised calculator, in any order of Mach numbers
def drag_queries_after_init(calc, shot, m1, m2):
    """a calculator initialised by the real _init_trajectory answers two successive drag queries; the second answer
    must be the table's value for the second Mach number whatever the first query was (rising or falling Mach)"""
    calc._init_trajectory(shot)
    a = calc.drag_by_mach(m1)
    b = calc.drag_by_mach(m2)
    return (calc, a, b)
