"""Run-time check of the _integrate loop contract on the real function (bounded stand-in, never counted as proved):
the clause strings of contracts/integrate.py evaluated by CPython on every iteration of real runs (pyvc.loopmon)."""
import os
import time

VERIF = os.path.dirname(os.path.dirname(os.path.abspath(__file__)))


def _clauses():
    from contracts import integrate as I
    from pyvc.contract import REGISTRY
    c = REGISTRY[f'{I.TC}::TrajectoryCalc._integrate']
    lc = c.loops[0]
    out = []

    def norm(x):
        if isinstance(x, dict):
            return x['label'], x['src'], tuple(x.get('props', ()))
        if hasattr(x, 'label'):
            return x.label, x.src, tuple(getattr(x, 'props', ()) or ())
        return x[0], x[1], ()
    for kind, items in (('entry', lc.entry), ('inv', lc.invariants), ('step', lc.step)):
        for it in items or []:
            lab, src, props = norm(it)
            out.append((kind, lab, src, props))
    for it in (c.exc_ensures or {}).get('RangeError', []):
        lab, src, props = norm(it)
        out.append(('raise', lab, src, props))
    for cl in c.ensures:
        if cl.role != 'assumed':
            out.append(('post', cl.label, cl.src, tuple(cl.props or ())))
    return out, c


REPLAY = '''#!/venv/bin/python
"""Replay of a run-time violation of the _integrate loop contract on the real code.
clause ({kind}) {label}:
    {src}
witness: contracts/integrate_witnesses.py::w_{wname}(filter_flags={flags})"""
import sys, warnings
warnings.simplefilter('ignore')
sys.path[:0] = [{verif!r}, {repo!r}]
import py_ballisticcalc as P
from py_ballisticcalc.trajectory_calc._trajectory_calc import TrajectoryCalc
from py_ballisticcalc.exceptions import RangeError
from pyvc.loopmon import Monitor, namespace
from contracts.integrate_witnesses import WITNESSES
m = Monitor(TrajectoryCalc._integrate, 0, [({kind!r}, {label!r}, {src!r})], namespace(), exc_types=(RangeError,))
outcome = m.run(WITNESSES[{wname!r}](P, {flags}))
st = m.stats[({kind!r}, {label!r})]
print('outcome:', outcome[0], type(outcome[1]).__name__, '| clause evaluated', st['evaluated'], 'times')
if st['failure']:
    print('VIOLATED on the real code at loop iteration', st['failure']['iteration'])
    print('  locals:', st['failure']['locals'])
    print('  at the loop head:', st['failure']['head'])
    sys.exit(1)
print('not reproduced', st)
sys.exit(0)
'''


def rt_integrate(tier, seed):
    import warnings
    warnings.simplefilter('ignore')
    import py_ballisticcalc as P
    from py_ballisticcalc.trajectory_calc._trajectory_calc import TrajectoryCalc
    from py_ballisticcalc.exceptions import RangeError
    from pyvc import REPO
    from pyvc.loopmon import Monitor, namespace
    from pyvc.scan import result
    from contracts.integrate_witnesses import WITNESSES
    t0 = time.time()
    clauses, c = _clauses()
    ns = namespace()
    agg = {(k, l): {'evaluated': 0, 'not_evaluable': 0, 'failure': None, 'src': s, 'props': p, 'error': None}
           for k, l, s, p in clauses}
    runs = 0
    outcomes = {}
    for wname, w in WITNESSES.items():
        for flags in (0, 31):
            m = Monitor(TrajectoryCalc._integrate, 0, [(k, l, s) for k, l, s, _ in clauses], ns, exc_types=(RangeError,))
            try:
                args = w(P, flags)
            except Exception as e:  # noqa  (a witness the changed constructors reject is skipped, not a violation)
                outcomes[f'{wname}/{flags}'] = f'witness not constructible: {type(e).__name__}'
                continue
            kind, val = m.run(args)
            runs += 1
            outcomes[f'{wname}/{flags}'] = f'{kind}:{type(val).__name__}' + (f':{val.reason}' if isinstance(val, RangeError) else '')
            if kind == 'raise' and not isinstance(val, RangeError):
                continue         # outside the contract's raises clause: the deductive side reports it; not judged here
            for key, st in m.stats.items():
                a = agg[key]
                a['evaluated'] += st['evaluated']
                a['not_evaluable'] += st['not_evaluable']
                a['error'] = a['error'] or st['error']
                if st['failure'] and a['failure'] is None:
                    a['failure'] = dict(st['failure'], witness=wname, flags=flags)
    obls = []
    for (kind, label), a in agg.items():
        ok = a['failure'] is None
        name = f'bounded::rt-loop-contract:{kind}:{label}'
        note = (f'clause evaluated natively {a["evaluated"]} times on {runs} real runs of _integrate '
                f'({len(WITNESSES)} witnesses x flags 0/31)' + (f'; not evaluable {a["not_evaluable"]} times ({a["error"]})'
                                                               if a['not_evaluable'] else ''))
        o = {'name': name, 'short': name, 'kind': 'bounded', 'role': 'clause', 'result': 'unsat' if ok else 'sat',
             'expect': 'unsat', 'ok': ok, 'time': 0.0, 'backend': 'run-time contract check on the real function (bounded)',
             'line': None, 'note': note + ' :: ' + a['src'][:300], 'props': list(a['props']),
             'bound': f'{runs} runs, {a["evaluated"]} clause evaluations', 'cases': a['evaluated']}
        if not ok:
            f = a['failure']
            o['inputs'] = {'witness': f['witness'], 'filter_flags': f['flags'], 'iteration': f['iteration'],
                           'locals': f['locals'], 'head': f['head']}
            o['replay_native'] = REPLAY.format(kind=kind, label=label, src=a['src'], wname=f['witness'], flags=f['flags'],
                                               verif=VERIF, repo=REPO)
        obls.append(o)
    res = result('bounded:rt-loop-contract:_integrate', obls, t0, props=())
    res['outcomes'] = outcomes
    return res
