"""C16 (danger space) and C20 (trajectory look-ups): trajectory_data/_trajectory_data.py, helpers.py"""
import py_ballisticcalc.unit as U
from py_ballisticcalc.unit import Unit
from py_ballisticcalc.trajectory_data import TrajectoryData, HitResult

from pyvc.contract import contract, LoopContract, Real, Int, Obj, Rec, Enum, Const, OneOf, ListOf, Flags, QuantityF
from .shapes import QDist, QAng

TD = 'py_ballisticcalc/trajectory_data/_trajectory_data.py'
HP = 'py_ballisticcalc/helpers.py'


def QF(cls, unit, value=None):
    return QuantityF(cls, unit=unit, value=value)


ROW = Rec(TrajectoryData,
          time=Real(lo=0), distance=QF(U.Distance, Unit.Foot), velocity=QF(U.Velocity, Unit.FPS), mach=Real(),
          height=QF(U.Distance, Unit.Foot), target_drop=QF(U.Distance, Unit.Foot), drop_adj=QF(U.Angular, Unit.Radian),
          windage=QF(U.Distance, Unit.Foot), windage_adj=QF(U.Angular, Unit.Radian),
          look_distance=QF(U.Distance, Unit.Foot), angle=QF(U.Angular, Unit.Radian), density_factor=Real(),
          drag=Real(), energy=QF(U.Energy, Unit.FootPound), ogw=QF(U.Weight, Unit.Pound), flag=Flags())
ROWS = ListOf(ROW, frozen=True)
from pyvc.rt import Struct  # noqa: E402
SHOT = Obj(Struct, look_angle=QAng(Unit.Degree))


def HR(extra=None):
    return Obj(HitResult, shot=SHOT, trajectory=ROWS, extra=extra if extra is not None else Enum(True, False))


T = 'self.trajectory'
N = f'len({T})'
SORTED_DIST = (f'forall(0, {N}, lambda i: forall(i + 1, {N}, lambda j: '
               f'raw({T}[i].distance) <= raw({T}[j].distance)))')
DISPLAY_ONLY = ['*._defined_units']

# ------------------------------------------------------------------------------- index_at_distance
FIRST_AT_LEAST = ('(result == -1 and forall(0, {n}, lambda k: {key} < {q})) or '
                  '(0 <= result < {n} and {keyr} >= {q} and forall(0, result, lambda k: {key} < {q}))')

contract(f'{TD}::HitResult.index_at_distance', props=('C20', 'C16'),
         params=dict(self=HR(), d=QDist(Unit.Yard)),
         ensures=[('first-row-at-or-beyond-else-minus-one',
                   FIRST_AT_LEAST.format(n=N, key=f'raw({T}[k].distance)', keyr=f'raw({T}[result].distance)',
                                         q='raw(d)'))],
         modifies=[])

contract(f'{TD}::HitResult.get_at_distance', props=('C20',),
         params=dict(self=HR(), d=QDist(Unit.Yard)),
         raises={'ArithmeticError': f'forall(0, {N}, lambda k: raw({T}[k].distance) < raw(d))'},
         ensures=[dict(label='is-the-first-row-at-or-beyond',
                       src=f'exists(0, {N}, lambda r: row_eq(result, {T}[r]) and raw({T}[r].distance) >= raw(d) and '
                           f'forall(0, r, lambda k: raw({T}[k].distance) < raw(d)))', witness=f'idx_of(result, {T})')],
         modifies=[])

# ------------------------------------------------------------------------------- danger space (C16)
DELTA = 'abs(raw({row}.target_drop) - raw(self.trajectory[row_num].target_drop)) >= target_height_half'
CI = f'idx_of(result.at_range, {T})'      # index of the reported target row
DROP = 'raw({T}[{k}].target_drop)'.replace('{T}', T)
POST_C = (f'exists(0, {N}, lambda c: row_eq(result.at_range, {T}[c]) and raw({T}[c].distance) >= raw(at_range) and '
          f'forall(0, c, lambda k: raw({T}[k].distance) < raw(at_range)))')
POST_B = (f'exists(0, {CI} + 1, lambda b: row_eq(result.begin, {T}[b]) and '
          f'forall(b + 1, {CI}, lambda k: abs({DROP.format(k="k")} - {DROP.format(k=CI)}) < raw(target_height) / 2) and '
          f'(b == 0 or abs({DROP.format(k="b")} - {DROP.format(k=CI)}) >= raw(target_height) / 2))')
POST_E = (f'exists({CI}, {N}, lambda e: row_eq(result.end, {T}[e]) and '
          f'forall({CI} + 1, e, lambda k: abs({DROP.format(k="k")} - {DROP.format(k=CI)}) < raw(target_height) / 2) and '
          f'(e == {N} - 1 or abs({DROP.format(k="e")} - {DROP.format(k=CI)}) >= raw(target_height) / 2))')

contract(f'{TD}::HitResult.danger_space', props=('C16',),
         params=dict(self=HR(), at_range=QDist(Unit.Yard), target_height=QDist(Unit.Inch, value=Real(lo=0)),
                     look_angle=OneOf(Const(None), QAng(Unit.Degree))),
         raises={'AttributeError': 'not self.extra',
                 'ArithmeticError': f'self.extra and forall(0, {N}, lambda k: raw({T}[k].distance) < raw(at_range))'},
         loops={
             0: LoopContract(invariants=[
                 ('rows-scanned-so-far-are-within-half-height', 'forall(row_num - _i, row_num, lambda k: not (' +
                  DELTA.format(row='self.trajectory[k]') + '))')]),
             1: LoopContract(invariants=[
                 ('rows-scanned-so-far-are-within-half-height', 'forall(row_num + 1, row_num + 1 + _i, lambda k: not (' +
                  DELTA.format(row='self.trajectory[k]') + '))')]),
         },
         ensures=[
             dict(label='target-row-is-first-row-at-or-beyond-the-requested-range', src=POST_C,
                  witness=f'idx_of(result.at_range, {T})'),
             dict(label='begin-brackets-interior-within-half-height-bound-outside-or-first-row', src=POST_B,
                  witness=f'idx_of(result.begin, {T})'),
             dict(label='end-brackets-interior-within-half-height-bound-outside-or-last-row', src=POST_E,
                  witness=f'idx_of(result.end, {T})'),
             ('target-height-passed-through', 'raw(result.target_height) == raw(target_height)'),
         ],
         modifies=DISPLAY_ONLY)
