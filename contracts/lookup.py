"""C16 (danger space) and C20 (trajectory look-ups): trajectory_data/_trajectory_data.py, helpers.py"""
import py_ballisticcalc.unit as U
from py_ballisticcalc.unit import Unit
from py_ballisticcalc.trajectory_data import TrajectoryData, HitResult

from pyvc.contract import contract, LoopContract, Real, Int, Obj, Rec, Enum, Const, OneOf, ListOf, Flags, QuantityF
from .shapes import QDist, QAng

TD = 'py_ballisticcalc/trajectory_data/_trajectory_data.py'
HP = 'py_ballisticcalc/helpers.py'


def QF(cls, unit, value=None):
    return QuantityF(cls, unit=unit, value=value)


ROW = Rec(TrajectoryData,
          time=Real(lo=0), distance=QuantityF(U.Distance, units=[Unit.Foot, Unit.Yard]), velocity=QF(U.Velocity, Unit.FPS), mach=Real(),
          height=QF(U.Distance, Unit.Foot), target_drop=QF(U.Distance, Unit.Foot), drop_adj=QF(U.Angular, Unit.Radian),
          windage=QF(U.Distance, Unit.Foot), windage_adj=QF(U.Angular, Unit.Radian),
          look_distance=QF(U.Distance, Unit.Foot), angle=QF(U.Angular, Unit.Radian), density_factor=Real(),
          drag=Real(), energy=QF(U.Energy, Unit.FootPound), ogw=QF(U.Weight, Unit.Pound), flag=Flags())
ROWS = ListOf(ROW, frozen=True)
from pyvc.rt import Struct  # noqa: E402
SHOT = Obj(Struct, look_angle=QAng(Unit.Degree))


def HR(extra=None):
    return Obj(HitResult, shot=SHOT, trajectory=ROWS, extra=extra if extra is not None else Enum(True, False))


T = 'self.trajectory'
N = f'len({T})'
SORTED_DIST = (f'forall(0, {N}, lambda i: forall(i + 1, {N}, lambda j: '
               f'raw({T}[i].distance) <= raw({T}[j].distance)))')
DISPLAY_ONLY = ['*._defined_units']

# ------------------------------------------------------------------------------- index_at_distance
FIRST_AT_LEAST = ('(result == -1 and forall(0, {n}, lambda k: {key} < {q})) or '
                  '(0 <= result < {n} and {keyr} >= {q} and forall(0, result, lambda k: {key} < {q}))')

contract(f'{TD}::HitResult.index_at_distance', props=('C20', 'C16'),
         params=dict(self=HR(), d=QDist(Unit.Yard)),
         ensures=[('first-row-at-or-beyond-else-minus-one',
                   FIRST_AT_LEAST.format(n=N, key=f'raw({T}[k].distance)', keyr=f'raw({T}[result].distance)',
                                         q='raw(d)'))],
         modifies=[])

contract(f'{TD}::HitResult.get_at_distance', props=('C20',),
         params=dict(self=HR(), d=QDist(Unit.Yard)),
         raises={'ArithmeticError': f'forall(0, {N}, lambda k: raw({T}[k].distance) < raw(d))'},
         ensures=[dict(label='is-the-first-row-at-or-beyond',
                       src=f'exists(0, {N}, lambda r: row_eq(result, {T}[r]) and raw({T}[r].distance) >= raw(d) and '
                           f'forall(0, r, lambda k: raw({T}[k].distance) < raw(d)))', witness=f'idx_of(result, {T})')],
         modifies=[])

# ------------------------------------------------------------------------------- danger space (C16)
DELTA = 'abs(raw({row}.target_drop) - raw(self.trajectory[row_num].target_drop)) >= target_height_half'
CI = f'idx_of(result.at_range, {T})'      # index of the reported target row
DROP = 'raw({T}[{k}].target_drop)'.replace('{T}', T)
POST_C = (f'exists(0, {N}, lambda c: row_eq(result.at_range, {T}[c]) and raw({T}[c].distance) >= raw(at_range) and '
          f'forall(0, c, lambda k: raw({T}[k].distance) < raw(at_range)))')
POST_B = (f'exists(0, {CI} + 1, lambda b: row_eq(result.begin, {T}[b]) and '
          f'forall(b + 1, {CI}, lambda k: abs({DROP.format(k="k")} - {DROP.format(k=CI)}) < raw(target_height) / 2) and '
          f'(b == 0 or abs({DROP.format(k="b")} - {DROP.format(k=CI)}) >= raw(target_height) / 2))')
POST_E = (f'exists({CI}, {N}, lambda e: row_eq(result.end, {T}[e]) and '
          f'forall({CI} + 1, e, lambda k: abs({DROP.format(k="k")} - {DROP.format(k=CI)}) < raw(target_height) / 2) and '
          f'(e == {N} - 1 or abs({DROP.format(k="e")} - {DROP.format(k=CI)}) >= raw(target_height) / 2))')

contract(f'{TD}::HitResult.danger_space', props=('C16',),
         params=dict(self=HR(), at_range=QDist(Unit.Yard), target_height=QDist(Unit.Inch, value=Real(lo=0)),
                     look_angle=OneOf(Const(None), QAng(Unit.Degree))),
         raises={'AttributeError': 'not self.extra',
                 'ArithmeticError': f'self.extra and forall(0, {N}, lambda k: raw({T}[k].distance) < raw(at_range))'},
         loops={
             0: LoopContract(invariants=[
                 ('rows-scanned-so-far-are-within-half-height', 'forall(row_num - _i, row_num, lambda k: not (' +
                  DELTA.format(row='self.trajectory[k]') + '))')]),
             1: LoopContract(invariants=[
                 ('rows-scanned-so-far-are-within-half-height', 'forall(row_num + 1, row_num + 1 + _i, lambda k: not (' +
                  DELTA.format(row='self.trajectory[k]') + '))')]),
         },
         ensures=[
             dict(label='target-row-is-first-row-at-or-beyond-the-requested-range', src=POST_C,
                  witness=f'idx_of(result.at_range, {T})'),
             dict(label='begin-brackets-interior-within-half-height-bound-outside-or-first-row', src=POST_B,
                  witness=f'idx_of(result.begin, {T})'),
             dict(label='end-brackets-interior-within-half-height-bound-outside-or-last-row', src=POST_E,
                  witness=f'idx_of(result.end, {T})'),
             ('target-height-passed-through', 'raw(result.target_height) == raw(target_height)'),
         ],
         modifies=DISPLAY_ONLY)

# =================================================================================== C20: helpers.py
import py_ballisticcalc.helpers as H  # noqa: E402
from pyvc.contract import Bool  # noqa: E402

S = 'shot.trajectory'
NS = f'len({S})'
SORTED_DIST_S = SORTED_DIST.replace(T, S)
SORTED_TIME_S = f'forall(0, {NS}, lambda i: forall(i + 1, {NS}, lambda j: {S}[i].time <= {S}[j].time))'

# Lib/bisect.py::bisect_left is inlined at its call sites (A-BISECT: the C accelerator behaves like
# this source); the loop invariant is the textbook one, the monotonicity precondition is proved at
# every call site from the sortedness of the trajectory.
HI0 = '(len(a) if hi is None else hi)'
contract('Lib/bisect.py::bisect_left', props=('C20',),
         params={},
         requires=[('lo-non-negative', 'lo >= 0'),
                   ('hi-in-range', f'lo <= {HI0} <= len(a)'),
                   ('no-key', 'key is None'),
                   ('monotone', f'forall(lo, {HI0}, lambda i: forall(i + 1, {HI0}, lambda j: '
                                'implies(a[j] < x, a[i] < x)))')],
         loops={0: LoopContract(
             ghost_init={'lo0': 'lo', 'hi0': 'hi'},
             invariants=[('bounds', 'lo0 <= lo <= hi <= hi0'),
                         ('below', 'forall(lo0, lo, lambda k: a[k] < x)'),
                         ('not-below', 'forall(hi, hi0, lambda k: not (a[k] < x))')],
             variant='hi - lo')},
         )
from pyvc.contract import REGISTRY  # noqa: E402
REGISTRY['Lib/bisect.py::bisect_left'].props = ()      # verified through its callers (inlined)

KEY_D = f'({S}[k].distance >> distance_unit)'
contract(f'{HP}::find_index_of_point_for_distance', props=('C20',),
         params=dict(shot=HR(Const(False)), distance=Real(), distance_unit=Enum(Unit.Meter, Unit.Yard, Unit.Foot)),
         requires=[('rows-in-non-decreasing-distance', SORTED_DIST_S)],
         ensures=[('first-row-at-or-beyond-else-minus-one',
                   FIRST_AT_LEAST.format(n=NS, key=KEY_D, keyr=KEY_D.replace('[k]', '[result]'), q='distance'))],
         modifies=[])

contract(f'{HP}::find_time_for_distance_in_shot', props=('C20',),
         params=dict(shot=HR(Const(False)), distance_in_unit=Real(), distance_unit=Enum(Unit.Meter, Unit.Foot)),
         requires=[('rows-in-non-decreasing-distance', SORTED_DIST_S)],
         ensures=[('time-of-first-row-at-or-beyond-else-nan',
                   f'forall(0, {NS}, lambda k: {KEY_D} < distance_in_unit) if is_nan(result) else '
                   f'exists(0, {NS}, lambda r: result == {S}[r].time and {KEY_D.replace("[k]", "[r]")} >= '
                   f'distance_in_unit and forall(0, r, lambda k: {KEY_D} < distance_in_unit))')],
         modifies=[])

NEAREST = (f'(result == -1 and forall(0, {NS}, lambda k: abs({S}[k].time - time) > max_time_deviation_in_seconds)) or '
           f'(0 <= result < {NS} and abs({S}[result].time - time) <= max_time_deviation_in_seconds and '
           f'forall(0, {NS}, lambda k: abs({S}[result].time - time) <= abs({S}[k].time - time)) and '
           f'forall(0, result, lambda k: abs({S}[k].time - time) > abs({S}[result].time - time)))')
contract(f'{HP}::find_index_for_time_point', props=('C20',),
         params=dict(shot=HR(Const(False)), time=Real(), strictly_bigger_or_equal=Enum(True, False),
                     max_time_deviation_in_seconds=Real()),
         requires=[('rows-in-non-decreasing-time', SORTED_TIME_S)],
         raises={'ValueError': 'max_time_deviation_in_seconds < 0 or time < 0'},
         ensures=[('strict-variant-first-row-at-or-after',
                   'implies(strictly_bigger_or_equal, ' +
                   FIRST_AT_LEAST.format(n=NS, key=f'{S}[k].time', keyr=f'{S}[result].time', q='time') + ')'),
                  ('nearest-variant-minimises-time-difference-earlier-row-on-ties-within-deviation',
                   f'implies(not strictly_bigger_or_equal, {NEAREST})')],
         modifies=[])

PTS = 'trajectory_points'
contract(f'{HP}::find_index_of_apex_in_points', props=('C20',),
         params=dict(trajectory_points=ROWS, p=Int()),
         requires=[  # single-peaked: strictly increasing up to row p, non-increasing after it (ghost input p)
             ('peak-in-range', f'len({PTS}) == 0 or 0 <= p < len({PTS})'),
             ('rising-to-peak', f'forall(0, p + 1, lambda i: forall(i + 1, p + 1, lambda j: '
                                f'raw({PTS}[i].height) < raw({PTS}[j].height)))'),
             ('not-rising-after-peak', f'forall(p, len({PTS}), lambda i: forall(i + 1, len({PTS}), lambda j: '
                                       f'raw({PTS}[i].height) >= raw({PTS}[j].height)))')],
         loops={0: LoopContract(invariants=[('bounds', 'left <= p <= right and 0 <= left and right < points_count')],
                                variant='right - left')},
         ensures=[('empty-gives-minus-one', f'implies(len({PTS}) == 0, result == -1)'),
                  ('highest-row', f'implies(len({PTS}) > 0, 0 <= result < len({PTS}) and forall(0, len({PTS}), '
                                  f'lambda k: raw({PTS}[k].height) <= raw({PTS}[result].height)))')],
         modifies=[])

contract(f'{HP}::find_first_index_matching_condition', props=('C20',),
         params={},
         loops={0: LoopContract(invariants=[
             ('no-earlier-match', 'forall(0, _i, lambda k: not condition(shot.trajectory[k]))')])})
REGISTRY[f'{HP}::find_first_index_matching_condition'].props = ()   # verified through its callers (inlined)

contract(f'{HP}::find_index_of_point_with_flag', props=('C20',),
         params=dict(shot=HR(Const(True)), flag=Enum(1, 2, 4, 8)),
         ensures=[('first-row-carrying-the-flag-else-minus-one',
                   f'(result == -1 and forall(0, {NS}, lambda k: ({S}[k].flag & flag) == 0)) or '
                   f'(0 <= result < {NS} and ({S}[result].flag & flag) != 0 and '
                   f'forall(0, result, lambda k: ({S}[k].flag & flag) == 0))')],
         modifies=[])

contract(f'{HP}::find_velocity_less_than_index', props=('C20',),
         params=dict(shot=HR(Const(True)), velocity_in_units=Real(), velocity_unit=Enum(Unit.MPS, Unit.FPS)),
         ensures=[('first-row-slower-than-else-minus-one',
                   f'(result == -1 and forall(0, {NS}, lambda k: ({S}[k].velocity >> velocity_unit) >= '
                   f'velocity_in_units)) or (0 <= result < {NS} and ({S}[result].velocity >> velocity_unit) < '
                   f'velocity_in_units and forall(0, result, lambda k: ({S}[k].velocity >> velocity_unit) >= '
                   f'velocity_in_units))')],
         modifies=[])
