"""C13 - AbstractDimension: magnitude immutable, comparisons by magnitude, hash, conversions only relabel."""
import py_ballisticcalc.unit as U
from py_ballisticcalc.unit import Unit

from pyvc.contract import contract, Real, Obj, Enum, Const, OneOf, Quantity
from .units import DIMS, units_of

UF = 'py_ballisticcalc/unit.py'
SF = 'verif:contracts/specfn.py'
DISPLAY_ONLY = ['*._defined_units']

# two dimensions with different structure stand for all seven in the generic AbstractDimension methods
# (the methods are inherited unchanged; per-dimension code is to_raw/from_raw, covered for all units in C06)
REPR = {'Distance': (U.Distance, [Unit.Foot, Unit.Meter]), 'Temperature': (U.Temperature, [Unit.Celsius, Unit.Fahrenheit]),
        'Angular': (U.Angular, [Unit.Degree, Unit.InchesPer100Yd])}

OPS = {'__lt__': '<', '__gt__': '>', '__le__': '<=', '__ge__': '>=', '__eq__': '=='}
for dim, (cls, us) in REPR.items():
    val = Real(lo=-1, hi=1) if dim == 'Angular' else Real()
    Qa = Quantity(cls, units=us, value=val)
    Qb = Quantity(cls, units=us[:1], value=val)
    for meth, op in OPS.items():
        contract(f'{UF}::AbstractDimension.{meth}', tag=f'{dim}-vs-quantity', props=('C13',),
                 params=dict(self=Qa, other=Qb),
                 ensures=[('follows-base-unit-magnitudes', f'result == (raw(self) {op} raw(other))')],
                 modifies=[])
        contract(f'{UF}::AbstractDimension.{meth}', tag=f'{dim}-vs-number', props=('C13',),
                 params=dict(self=Qa, other=Real()),
                 ensures=[('follows-base-unit-magnitude', f'result == (raw(self) {op} other)')],
                 modifies=[])
    contract(f'{UF}::AbstractDimension.convert', tag=dim, props=('C13',),
             params=dict(self=Qa, units=Enum(*units_of(cls))),
             ensures=[('returns-the-same-object', 'same_object(result, self)'),
                      ('magnitude-unchanged', 'raw(self) == old(raw(self))'),
                      ('displays-in-the-requested-unit', 'self.units == units')],
             modifies=['self._defined_units'])
    contract(f'{UF}::AbstractDimension.get_in', tag=dim, props=('C13',),
             params=dict(self=Qa, units=Enum(*us)),
             ensures=[('reading-is-a-function-of-magnitude-and-unit-only',
                       f'from_base_ok({dim!r}, raw(self), units, result)')],
             modifies=[])
    contract(f'{UF}::AbstractDimension.unit_value', tag=dim, which='getter', props=('C13', 'C06'),
             params=dict(self=Qa),
             ensures=[('reading-in-the-display-unit', f'from_base_ok({dim!r}, raw(self), self.units, result)')],
             modifies=[])
    contract(f'{UF}::AbstractDimension.__float__', tag=dim, props=('C13',), params=dict(self=Qa),
             ensures=[('is-the-base-unit-magnitude', 'result == raw(self)')], modifies=[])
    contract(f'{UF}::AbstractDimension.__str__', tag=dim, props=('C13',), params=dict(self=Qa), modifies=[])
    contract(f'{UF}::AbstractDimension.__repr__', tag=dim, props=('C13',), params=dict(self=Qa), modifies=[])
    # --- hash -------------------------------------------------------------------------------
    contract(f'{SF}::hash_pair', tag=dim, props=('C13',),
             params=dict(q=Qa, r=Quantity(cls, units=us, value=val)),
             ensures=[('equal-quantities-hash-equally', 'implies(raw(q) == raw(r), result[0] == result[1])')],
             modifies=[])
    contract(f'{SF}::hash_before_after_convert', tag=dim, props=('C13',),
             params=dict(q=Qa, u=Enum(*us)),
             ensures=[('hash-does-not-change-with-the-display-unit', 'result[0] == result[1]')],
             modifies=DISPLAY_ONLY)
    contract(f'{SF}::read_convert_read', tag=dim, props=('C13', 'C06'),
             params=dict(q=Qa, u=Enum(*us), v=Enum(*us)),
             ensures=[('same-reading-before-and-after-a-conversion', 'result[0] == result[1]'),
                      ('unit-value-follows-the-new-display-unit', f'from_base_ok({dim!r}, raw(q), v, result[2])')],
             modifies=DISPLAY_ONLY)
    # --- Unit.__call__ ----------------------------------------------------------------------
    contract(f'{UF}::Unit.__call__', tag=f'{dim}-number', props=('C13', 'C06', 'C07'),
             params=dict(self=Enum(*units_of(cls)), value=val),
             ensures=[('fresh-quantity-of-the-units-dimension', f'isinstance(result, {dim}) and result.units == self'),
                      ('magnitude-is-the-number-in-that-unit', f'to_base_ok({dim!r}, value, self, raw(result))')],
             modifies=[])
    contract(f'{UF}::Unit.__call__', tag=f'{dim}-quantity', props=('C13', 'C07'),
             params=dict(self=Enum(*us), value=Qa),
             ensures=[('same-object-relabelled', 'same_object(result, value) and value.units == self'),
                      ('magnitude-unchanged', 'raw(value) == old(raw(value))')],
             modifies=['value._defined_units'])
