"""C12 - wind by segment: Wind.vector, Shot.winds, _WindSock."""
import py_ballisticcalc.conditions as C
import py_ballisticcalc.trajectory_calc._trajectory_calc as tc
from py_ballisticcalc.unit import Unit

from pyvc.contract import contract, LoopContract, Real, Int, Obj, Rec, Enum, Const, OneOf, ListOf, FixedList, QuantityF
import py_ballisticcalc.unit as U
from .shapes import QVel, QAng, QDist, VEC

CF = 'py_ballisticcalc/conditions.py'
TC = 'py_ballisticcalc/trajectory_calc/_trajectory_calc.py'


def WIND():
    return Obj(C.Wind, velocity=QVel(Unit.FPS, value=Real(lo=0, hi=200)), direction_from=QAng(Unit.Radian, value=Real(lo=-3.2, hi=3.2)),
               until_distance=QDist(Unit.Foot, value=Real(lo=0)), MAX_DISTANCE_FEET=Const(1e8))


VEC_OF = ('({w}.velocity >> Velocity.FPS) * math.cos({w}.direction_from >> Angular.Radian), 0, '
          '({w}.velocity >> Velocity.FPS) * math.sin({w}.direction_from >> Angular.Radian)')

contract(f'{CF}::Wind.vector', which='getter', props=('C12', 'C01'),
         params=dict(self=WIND()),
         ensures=[('downrange-and-cross-components-from-speed-and-direction',
                   'result.x == raw(self.velocity) * 3.2808399 * math.cos(raw(self.direction_from)) and result.y == 0 and '
                   'result.z == raw(self.velocity) * 3.2808399 * math.sin(raw(self.direction_from))'),
                  ('wind-from-the-left-pushes-to-the-right',
                   'implies(raw(self.velocity) > 0 and 0 < raw(self.direction_from) < 3.14, result.z > 0)'),
                  ('wind-from-behind-pushes-downrange',
                   'implies(raw(self.velocity) > 0 and -1.57 < raw(self.direction_from) < 1.57, result.x > 0)'),
                  ('zero-speed-wind-is-no-wind', 'implies(raw(self.velocity) == 0, result.x == 0 and result.z == 0)')],
         modifies=[])

# ------------------------------------------------------------------------------------------- Shot.winds
U_ = 'raw({}.until_distance)'
for n in (1, 2, 3):
    ws = FixedList(*[WIND() for _ in range(n)])
    ens = [('same-number-of-winds', f'len(result) == {n}'),
           ('ordered-by-until-distance', ' and '.join(
               [f'{U_.format(f"result[{i}]")} <= {U_.format(f"result[{i + 1}]")}' for i in range(n - 1)]) or 'True'),
           ('every-given-wind-appears', ' and '.join(
               ['(' + ' or '.join(f'same_object(result[{j}], self._winds[{i}])' for j in range(n)) + ')'
                for i in range(n)])),
           ('no-wind-appears-twice', ' and '.join(
               [f'not same_object(result[{i}], result[{j}])' for i in range(n) for j in range(i + 1, n)]) or 'True')]
    if n == 2:
        ens.append(('equal-until-distances-keep-the-given-order',
                    f'implies({U_.format("self._winds[0]")} == {U_.format("self._winds[1]")}, '
                    'same_object(result[0], self._winds[0]))'))
    contract(f'{CF}::Shot.winds', which='getter', tag=f'{n}-winds', props=('C12', 'C10'),
             params=dict(self=Obj(C.Shot, _winds=ws)), ensures=ens, modifies=[])

# ------------------------------------------------------------------------------------------- _WindSock
WTUPLE = ListOf(Obj(C.Wind, velocity=QuantityF(U.Velocity, unit=Unit.FPS), direction_from=QuantityF(U.Angular, unit=Unit.Radian),
                    until_distance=QuantityF(U.Distance, unit=Unit.Foot, value=Real(lo=0)), MAX_DISTANCE_FEET=Const(1e8)),
                is_tuple=True, frozen=True)
W = 'self.winds'
UNTIL = f'(raw({W}[{{k}}].until_distance) / 12)'
SORTED_W = f'forall(0, len({W}), lambda i: forall(i + 1, len({W}), lambda j: raw({W}[i].until_distance) <= raw({W}[j].until_distance)))'
CACHE_IS = ('(self._last_vector_cache.x == raw({w}.velocity) * 3.2808399 * math.cos(raw({w}.direction_from)) and '
            'self._last_vector_cache.y == 0 and '
            'self._last_vector_cache.z == raw({w}.velocity) * 3.2808399 * math.sin(raw({w}.direction_from)))')
SOCK_INV = [
    ('index-in-range', f'0 <= self.current <= len({W}) and self._length == len({W})'),
    ('inside-a-segment-its-end-and-its-wind-are-cached',
     f'(self.next_range == {UNTIL.format(k="self.current")} and ' + CACHE_IS.format(w=f'{W}[self.current]')
     + f') if self.current < len({W}) else True'),
    ('beyond-the-last-segment-no-wind',
     f'implies(self.current >= len({W}), self.next_range == Wind.MAX_DISTANCE_FEET and self._last_vector_cache.x == 0 '
     'and self._last_vector_cache.y == 0 and self._last_vector_cache.z == 0)'),
]
SOCK = Obj(tc._WindSock, winds=WTUPLE, current=Int(), next_range=Real(), _last_vector_cache=VEC, _length=Int())

contract(f'{TC}::_WindSock.__init__', props=('C12',),
         params=dict(self=Obj(tc._WindSock), winds=OneOf(Const(None), WTUPLE)),
         ensures=[('starts-in-the-first-segment', 'self.current == 0'),
                  ('keeps-every-given-wind-in-order-zero-speed-ones-included',
                   f'(len({W}) == 0) if winds is None else (len({W}) == len(winds) and forall(0, len(winds), lambda i: '
                   f'raw({W}[i].until_distance) == raw(winds[i].until_distance) and raw({W}[i].velocity) == '
                   f'raw(winds[i].velocity) and raw({W}[i].direction_from) == raw(winds[i].direction_from)))')]
         + SOCK_INV,
         modifies=['self.*'])

contract(f'{TC}::_WindSock.vector_for_range', props=('C12',),
         params=dict(self=SOCK, next_range=Real(lo=0, hi=9e7)),
         requires=[(l, s) for l, s in SOCK_INV] + [
             ('winds-sorted-by-until-distance', SORTED_W),
             ('not-ahead-of-the-projectile', f'forall(0, self.current, lambda i: {UNTIL.format(k="i")} <= next_range)')],
         loops={0: LoopContract(invariants=SOCK_INV + [
             ('not-ahead-of-the-projectile', f'forall(0, self.current, lambda i: {UNTIL.format(k="i")} <= next_range)')],
             variant=f'len({W}) - self.current')},
         ensures=SOCK_INV + [
             ('every-segment-ending-at-or-before-x-has-been-left',
              f'forall(0, len({W}), lambda i: implies({UNTIL.format(k="i")} <= next_range, i < self.current))'),
             ('never-ahead-no-segment-beginning-beyond-x-is-in-force',
              f'forall(0, self.current, lambda i: {UNTIL.format(k="i")} <= next_range)'),
             ('returns-the-wind-in-force', 'result.x == self._last_vector_cache.x and result.y == self._last_vector_cache.y '
                                           'and result.z == self._last_vector_cache.z')],
         modifies=['self.current', 'self.next_range', 'self._last_vector_cache'], modular=True, result_shape=VEC)


# primary contract of Shot.winds (used at call sites): any number of winds, result ordered by until-distance
WINDF = Obj(C.Wind, velocity=QuantityF(U.Velocity, unit=Unit.FPS), direction_from=QuantityF(U.Angular, unit=Unit.Radian),
            until_distance=QuantityF(U.Distance, unit=Unit.Foot, value=Real(lo=0)), MAX_DISTANCE_FEET=Const(1e8))
contract(f'{CF}::Shot.winds', which='getter', props=('C12', 'C10'),
         params=dict(self=Obj(C.Shot, _winds=ListOf(WINDF, frozen=True))),
         ensures=[('same-number-of-winds', 'len(result) == len(self._winds)'),
                  ('ordered-by-until-distance', 'forall(0, len(result), lambda i: forall(i + 1, len(result), lambda j: '
                                                'raw(result[i].until_distance) <= raw(result[j].until_distance)))'),
                  ('every-until-distance-is-one-of-the-given-ones',
                   'forall(0, len(result), lambda i: exists(0, len(self._winds), lambda j: '
                   'raw(result[i].until_distance) == raw(self._winds[j].until_distance)))')],
         modifies=[], modular=True, result_shape=WTUPLE)
