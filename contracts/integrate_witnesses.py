"""Concrete witnesses for the run-time check of the _integrate loop contract: real calculators initialised for real
shots by the real constructors and the real _init_trajectory.  z3-free (used by replay scripts under /venv/bin/python).
Ranges are short so that the line tracer stays cheap; each witness aims at one region of the contract:
several wind segments, a single wind that ends before the range, every range-error reason on climbing and
falling branches, ground speed vs air speed at the velocity limit, steep shots, time rows, no recording."""


def _shot(P, mv=2750, bc=0.223, winds=None, rel_deg=0.0, look_deg=0.0, alt_ft=0.0, cant_deg=0.0, twist=12):
    return P.Shot(P.Weapon(P.Unit.Inch(2), P.Unit.Inch(twist)), P.Ammo(P.DragModel(bc, P.TableG7), P.Unit.FPS(mv)),
                  look_angle=P.Unit.Degree(look_deg), relative_angle=P.Unit.Degree(rel_deg), cant_angle=P.Unit.Degree(cant_deg),
                  atmo=P.Atmo(altitude=P.Unit.Foot(alt_ft)), winds=winds or [])


def _args(P, shot, rng_ft, step_ft, flags, time_step=0.0, config=None):
    calc = P.Calculator(_config=config) if config else P.Calculator()
    calc._calc._init_trajectory(shot)
    return dict(self=calc._calc, shot_info=shot, maximum_range=float(rng_ft), record_step=float(step_ft),
                filter_flags=flags, time_step=time_step)


def w_three_wind_segments(P, flags):
    winds = [P.Wind(P.Unit.MPH(5), P.Unit.Degree(45), P.Unit.Foot(40)), P.Wind(P.Unit.MPH(8), P.Unit.Degree(270), P.Unit.Foot(90)),
             P.Wind(P.Unit.MPH(3), P.Unit.Degree(90))]
    return _args(P, _shot(P, winds=winds), 150, 30, flags)


def w_single_wind_ending_before_the_range(P, flags):
    return _args(P, _shot(P, winds=[P.Wind(P.Unit.MPH(15), P.Unit.Degree(90), P.Unit.Foot(50))]), 120, 40, flags)


def w_two_winds_same_until_distance(P, flags):
    winds = [P.Wind(P.Unit.MPH(5), P.Unit.Degree(45), P.Unit.Foot(40)), P.Wind(P.Unit.MPH(8), P.Unit.Degree(200), P.Unit.Foot(40)),
             P.Wind(P.Unit.MPH(2), P.Unit.Degree(10), P.Unit.Foot(41))]
    return _args(P, _shot(P, winds=winds), 100, 25, flags)


def w_minimum_velocity_reached_with_head_wind(P, flags):
    # ground speed falls below the limit while the air speed is still above it
    return _args(P, _shot(P, mv=60, bc=0.5, rel_deg=45, winds=[P.Wind(P.Unit.FPS(40), P.Unit.Degree(180))]), 400, 50, flags)


def w_minimum_velocity_with_tail_wind(P, flags):
    # air speed below the limit from the start while the ground speed is above it
    return _args(P, _shot(P, mv=80, bc=0.3, winds=[P.Wind(P.Unit.FPS(45), P.Unit.Degree(0))]), 60, 20, flags)


def w_maximum_drop_reached(P, flags):
    return _args(P, _shot(P, mv=300, bc=0.1, rel_deg=-30), 500, 50, flags, config={'cMaximumDrop': -20})


def w_minimum_altitude_reached_falling(P, flags):
    return _args(P, _shot(P, mv=300, bc=0.1, rel_deg=-20, alt_ft=10), 500, 50, flags, config={'cMinimumAltitude': 0})


def w_below_minimum_altitude_while_climbing(P, flags):
    # the muzzle is already below the altitude limit and the shot climbs: the first step must report it
    return _args(P, _shot(P, mv=800, rel_deg=30, alt_ft=-5), 100, 20, flags, config={'cMinimumAltitude': 0})


def w_below_maximum_drop_while_climbing(P, flags):
    # sight 2 inch above the bore: y starts at -1/6 ft, drop limit -0.1 ft, climbing shot
    return _args(P, _shot(P, mv=800, rel_deg=10), 100, 20, flags, config={'cMaximumDrop': -0.1})


def w_steep_shot_with_time_rows(P, flags):
    return _args(P, _shot(P, mv=400, bc=0.15, rel_deg=75, cant_deg=5), 60, 20, flags, time_step=0.01)


def w_inclined_sight_line_crossing_mach(P, flags):
    return _args(P, _shot(P, mv=1160, bc=0.12, look_deg=8, rel_deg=0.3), 260, 20, flags)


def w_record_step_below_calc_step(P, flags):
    return _args(P, _shot(P), 12, 0.1, flags)


WITNESSES = {f.__name__[2:]: f for f in (
    w_three_wind_segments, w_single_wind_ending_before_the_range, w_two_winds_same_until_distance,
    w_minimum_velocity_reached_with_head_wind, w_minimum_velocity_with_tail_wind, w_maximum_drop_reached,
    w_minimum_altitude_reached_falling, w_below_minimum_altitude_while_climbing, w_below_maximum_drop_while_climbing,
    w_steep_shot_with_time_rows, w_inclined_sight_line_crossing_mach, w_record_step_below_calc_step)}
