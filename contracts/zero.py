"""C02 (zeroing) and C10 (frames of the public operations): TrajectoryCalc.zero_angle / trajectory,
Calculator.barrel_elevation_for_target / set_weapon_zero / fire."""
import py_ballisticcalc.trajectory_calc._trajectory_calc as tc
import py_ballisticcalc.interface as I
from py_ballisticcalc.unit import Unit

from pyvc.contract import contract, LoopContract, Real, Int, Obj, Rec, Enum, Const, OneOf, Built, ListOf
from .shapes import shot_shape, config_shape, QDist, QAng, SMALL_ANGLE
from .wind import WINDF
from .init import ASC, CALC as FRESH_CALC

TC = 'py_ballisticcalc/trajectory_calc/_trajectory_calc.py'
IF = 'py_ballisticcalc/interface.py'
SHOT = shot_shape(winds=ListOf(WINDF, frozen=True, minlen=1))
TABLE_OK = [('table-strictly-ascending', ASC.format(t='shot_info.ammo.dm.drag_table'))]
ONLY_THE_CALCULATOR = ['self.*', '*._defined_units']       # the shot, weapon, ammunition, atmosphere, winds: untouched

# C04 / C18: the limits and settings the caller configured stay in force for every later call on this calculator -
# whether the operation returns or raises (a zeroing run that fails must not leave relaxed limits behind)
CONFIG_KEPT = ' and '.join(f'self._config.{f} == old(self._config.{f})' for f in tc.Config._fields)
KEPT = ('the-calculators-configuration-is-the-same-after-the-call', CONFIG_KEPT, 'clause', ('C04', 'C18', 'C10'))
KEPT_EXC = {'ZeroFindingError': [KEPT], 'RangeError': [KEPT]}

ACC = 'self._config.cZeroFindingAccuracy'
AIM = '(math.sin(self.look_angle) * (raw(distance) / 12))'
RNG = '(math.cos(self.look_angle) * (raw(distance) / 12))'
contract(f'{TC}::TrajectoryCalc.zero_angle', props=('C02', 'C10'),
         params=dict(self=Built(tc.TrajectoryCalc, config_shape(cZeroFindingAccuracy=Real(lo=0, lo_open=True)), used_=True),
                     shot_info=SHOT, distance=QDist(Unit.Yard, value=Real(lo=1, hi=5000))),
         requires=TABLE_OK,
         loops={0: LoopContract(invariants=[
             ('iteration-count', 'iterations_count >= 0'),
             ('error-is-that-of-a-run-with-the-current-elevation-or-too-large',
              f'zero_finding_error > _cZeroFindingAccuracy or zero_finding_error == '
              f'abs(zero_run_height(self.barrel_elevation, zero_distance) - height_at_zero)'),
             ('aim-point', f'height_at_zero == {AIM} and zero_distance == {RNG} and _cZeroFindingAccuracy == {ACC} '
                           f'and _cMaxIterations == self._config.cMaxIterations'),
             ('initialised-for-this-shot', 'self.look_angle == raw(shot_info.look_angle)')],
             variant='_cMaxIterations - iterations_count')},
         raises={'ZeroFindingError': None, 'RangeError': None},
         ensures=[
             ('returns-the-elevation-the-calculator-ended-with', 'raw(result) == self.barrel_elevation'),
             ('a-returned-elevation-was-measured-to-hit-within-the-zero-finding-accuracy',
              f'abs(zero_run_height(raw(result), {RNG}) - {AIM}) <= {ACC}'),
             KEPT,
         ],
         exc_ensures={'ZeroFindingError': [
             ('raised-only-when-the-accuracy-was-not-met', 'exc.zero_finding_error > self._config.cZeroFindingAccuracy'),
             KEPT], 'RangeError': [KEPT]},
         modifies=ONLY_THE_CALCULATOR, reveal=['line_through'], modular=True,
         result_shape=QAng(Unit.Radian, value=Real(lo=-1.6, hi=1.6)).alternatives()[0],
         use={f'{TC}::TrajectoryCalc._integrate': ['returns-the-recorded-rows-at-least-one',
                                                    'zeroing-run-height-is-a-function-of-the-elevation-used']},
         at_calls={f'{TC}::TrajectoryCalc._integrate': [
             ('every-zeroing-run-is-of-this-shot-to-the-horizontal-zero-distance-without-recording',
              'same_object(shot_info, caller_shot_info) and maximum_range == caller_zero_distance and filter_flags == 0'),
             # C18: cMaxIterations bounds the number of zeroing runs (iterations_count = runs completed so far, one run per
             # iteration): a run is only started while fewer than the configured maximum have been made
             ('a-zeroing-run-is-only-started-while-fewer-than-cMaxIterations-runs-have-been-made',
              'caller_iterations_count >= 0 and caller_iterations_count < self._config.cMaxIterations', 'clause', ('C18', 'C02'))]})

contract(f'{TC}::TrajectoryCalc.trajectory', props=('C10', 'C03', 'C11'),
         params=dict(self=Built(tc.TrajectoryCalc, config_shape(), used_=True), shot_info=SHOT,
                     max_range=QDist(Unit.Yard, value=Real(lo=0, hi=5000)), dist_step=QDist(Unit.Yard, value=Real(lo=0, hi=5000)),
                     extra_data=Enum(False, True), time_step=Real(lo=0)),
         requires=TABLE_OK,
         raises={'RangeError': None},
         ensures=[('returns-rows', 'len(result) >= 1'), KEPT], exc_ensures={'RangeError': [KEPT]},
         modifies=ONLY_THE_CALCULATOR, reveal=['line_through'], modular=True,
         result_shape=None,
         use={f'{TC}::TrajectoryCalc._integrate': ['returns-the-recorded-rows-at-least-one']},
         # what the request becomes for the integrator (C03: rows up to the REQUESTED range at the REQUESTED step; C11)
         at_calls={f'{TC}::TrajectoryCalc._integrate': [
             ('integrates-this-shot', 'same_object(shot_info, caller_shot_info)'),
             ('integrates-to-the-requested-horizontal-range', 'maximum_range == old(raw(max_range)) / 12'),
             ('records-at-the-requested-step-with-or-without-extra-data', 'record_step == old(raw(dist_step)) / 12'),
             ('range-rows-only-or-all-flags-with-extra-data', 'filter_flags == (31 if old(extra_data) else 8)'),
             ('time-step-passed-through', 'time_step == old(time_step)')]})
from pyvc.contract import REGISTRY  # noqa: E402
from .lookup import ROW  # noqa: E402
REGISTRY[f'{TC}::TrajectoryCalc.trajectory'].result_shape = ListOf(ROW, minlen=1).alternatives()[0]

# ------------------------------------------------------------------------------------------ Calculator
CALCULATOR = Obj(I.Calculator, _config=Const(None), _calc=Built(tc.TrajectoryCalc, config_shape(), used_=True))
SHOT2 = shot_shape(winds=ListOf(WINDF, frozen=True, minlen=1))
TABLE_OK2 = [('table-strictly-ascending', ASC.format(t='shot.ammo.dm.drag_table'))]

contract(f'{IF}::Calculator.barrel_elevation_for_target', props=('C02', 'C10'),
         params=dict(self=CALCULATOR, shot=SHOT2, target_distance=OneOf(QDist(Unit.Yard, value=Real(lo=1, hi=5000)), Real(lo=1, hi=5000))),
         requires=TABLE_OK2,
         raises={'ZeroFindingError': None, 'RangeError': None},
         ensures=[('elevation-relative-to-the-sight-line', 'True')],
         modifies=['self._calc.*', '*._defined_units'],          # in particular not shot.weapon.zero_elevation
         use={f'{TC}::TrajectoryCalc.zero_angle': []})

contract(f'{IF}::Calculator.set_weapon_zero', props=('C02', 'C10'),
         params=dict(self=CALCULATOR, shot=SHOT2, zero_distance=QDist(Unit.Yard, value=Real(lo=1, hi=5000))),
         requires=TABLE_OK2,
         raises={'ZeroFindingError': None, 'RangeError': None},
         ensures=[('stores-and-returns-the-new-zero', 'same_object(result, shot.weapon.zero_elevation)')],
         # on an exceptional exit ('normal:' entries are not allowed then) the stored zero is untouched
         modifies=['self._calc.*', '*._defined_units', 'normal:shot.weapon.zero_elevation'],
         use={f'{TC}::TrajectoryCalc.zero_angle': []})

contract(f'{IF}::Calculator.fire', props=('C10', 'C03'),
         params=dict(self=CALCULATOR, shot=SHOT2, trajectory_range=OneOf(QDist(Unit.Yard, value=Real(lo=1, hi=5000)), Real(lo=1, hi=5000)),
                     trajectory_step=OneOf(Const(0), QDist(Unit.Yard, value=Real(lo=0, lo_open=True, hi=5000))),
                     extra_data=Enum(False, True), time_step=Real(lo=0)),
         requires=TABLE_OK2,
         raises={'RangeError': None},
         ensures=[('result-carries-the-shot-and-the-extra-flag', 'same_object(result.shot, shot) and result.extra == extra_data')],
         modifies=['self._calc.*', '*._defined_units'],
         use={f'{TC}::TrajectoryCalc.trajectory': ['returns-rows']},
         at_calls={f'{TC}::TrajectoryCalc.trajectory': [
             ('computes-this-shot', 'same_object(shot_info, caller_shot)'),
             ('to-the-requested-range-bare-numbers-in-the-preferred-unit',
              'raw(max_range) == (raw(old(trajectory_range)) if is_quantity(old(trajectory_range)) else '
              'old(trajectory_range) * 36)'),
             ('at-the-requested-step-one-tenth-of-the-range-by-default',
              'raw(dist_step) == (raw(max_range) / 10 if not is_quantity(old(trajectory_step)) else raw(old(trajectory_step)))'),
             ('extra-data-and-time-step-passed-through', 'extra_data == old(extra_data) and time_step == old(time_step)')]})
