"""C05 - derived columns of a trajectory row: create_trajectory_row, get_correction, calculate_energy,
calculate_ogw, _new_*, TrajectoryCalc.spin_drift, TrajectoryCalc.calc_stability_coefficient."""
import py_ballisticcalc.trajectory_calc._trajectory_calc as tc
import py_ballisticcalc.unit as U
from py_ballisticcalc.unit import Unit
from py_ballisticcalc.conditions import Atmo
from py_ballisticcalc.vector import Vector

from pyvc.contract import contract, Real, Int, Obj, Rec, Enum, Const, OneOf, Flags
from .shapes import QPress, QTemp

TC = 'py_ballisticcalc/trajectory_calc/_trajectory_calc.py'
VEC = Rec(Vector, x=Real(), y=Real(), z=Real())
HALF_PI = 1.5707

contract(f'{TC}::get_correction', props=('C05',),
         params=dict(distance=Real(), offset=Real()),
         ensures=[('atan-of-offset-over-distance-zero-at-the-muzzle',
                   'result == (math.atan(offset / distance) if distance != 0 else 0)')],
         modifies=[])

contract(f'{TC}::calculate_energy', props=('C05',),
         params=dict(bullet_weight=Real(lo=0), velocity=Real(lo=0)),
         ensures=[('kinetic-energy-of-the-bullet-weight-in-grains-at-that-speed-in-ft-lb',
                   # 1/2 m v^2 with m = w/7000 lb / g_n[ft/s^2]  (to 1e-4: the code's 450400 vs 2*7000*32.17405)
                   'approx(result, (bullet_weight / 7000) * velocity * velocity / (2 * 32.17405), 0.0001)')],
         modifies=[])

contract(f'{TC}::calculate_ogw', props=('C05',),
         params=dict(bullet_weight=Real(), velocity=Real()),
         ensures=[('weight-squared-speed-cubed-1.5e-12',
                   'result == bullet_weight * bullet_weight * velocity * velocity * velocity * 1.5e-12')],
         modifies=[])

for fn, cls, unit, factor in (('_new_feet', 'Distance', 'Foot', 'v * 12'), ('_new_rad', 'Angular', 'Radian', 'v'),
                              ('_new_ft_lb', 'Energy', 'FootPound', 'v')):
    contract(f'{TC}::{fn}', props=('C05',), params=dict(v=Real()),
             ensures=[('fresh-quantity-with-that-magnitude',
                       f'isinstance(result, {cls}) and raw(result) == {factor} and result.units == Unit.{unit}')],
             modifies=[])
contract(f'{TC}::_new_fps', props=('C05',), params=dict(v=Real()),
         ensures=[('fresh-velocity-with-that-magnitude',
                   'isinstance(result, Velocity) and approx(raw(result), v * SI_FACTOR[Unit.FPS], 0.000001) and '
                   'result.units == Unit.FPS')], modifies=[])
contract(f'{TC}::_new_lb', props=('C05',), params=dict(v=Real()),
         ensures=[('fresh-weight-with-that-magnitude',
                   'isinstance(result, Weight) and approx(raw(result), v * 7000, 0.000001) and result.units == Unit.Pound')],
         modifies=[])

X, Y, Z = 'range_vector.x', 'range_vector.y', 'range_vector.z'
contract(f'{TC}::create_trajectory_row', props=('C05',),
         params=dict(time=Real(lo=0), range_vector=VEC, velocity_vector=VEC, velocity=Real(lo=0), mach=Real(lo=0, lo_open=True),
                     spin_drift=Real(), look_angle=Real(lo=-HALF_PI, hi=HALF_PI), density_factor=Real(), drag=Real(),
                     weight=Real(lo=0), flag=Flags()),
         ensures=[
             ('time-distance-height-are-the-state', f'result.time == time and raw(result.distance) == {X} * 12 and '
                                                     f'raw(result.height) == {Y} * 12'),
             ('speed-is-the-given-speed', 'approx(raw(result.velocity), velocity * SI_FACTOR[Unit.FPS], 0.000001)'),
             ('mach-is-speed-over-speed-of-sound', 'result.mach == velocity / mach'),
             ('energy-is-kinetic-energy-of-bullet-weight',
              'approx(raw(result.energy), (weight / 7000) * velocity * velocity / (2 * 32.17405), 0.0001)'),
             ('ogw-is-weight-squared-speed-cubed-1.5e-12-pounds',
              'approx(raw(result.ogw) / 7000, weight * weight * velocity * velocity * velocity * 1.5e-12, 0.000001)'),
             ('target-drop-is-signed-distance-to-the-sight-line',
              f'raw(result.target_drop) / 12 == {Y} * math.cos(look_angle) - {X} * math.sin(look_angle)'),
             ('drop-adjustment-is-elevation-of-the-point-minus-look-angle-zero-at-muzzle',
              f'raw(result.drop_adj) == (math.atan({Y} / {X}) - look_angle if {X} != 0 else 0)'),
             ('windage-is-lateral-position-plus-spin-drift', f'raw(result.windage) == ({Z} + spin_drift) * 12'),
             ('windage-adjustment-is-atan-windage-over-distance-zero-at-muzzle',
              f'raw(result.windage_adj) == (math.atan(({Z} + spin_drift) / {X}) if {X} != 0 else 0)'),
             ('look-distance-is-distance-along-the-sight-line',
              f'raw(result.look_distance) / 12 * math.cos(look_angle) == {X}'),
             ('angle-is-direction-of-velocity', 'raw(result.angle) == math.atan2(velocity_vector.y, velocity_vector.x)'),
             ('density-drag-flag-passed-through', 'result.density_factor == density_factor - 1 and result.drag == drag '
                                                  'and result.flag == flag'),
         ],
         modifies=[], modular=True, result_shape=None)
from pyvc.contract import REGISTRY  # noqa: E402
from .lookup import ROW  # noqa: E402
REGISTRY[f'{TC}::create_trajectory_row'].result_shape = ROW.alternatives()[0]

# ---------------------------------------------------------------------------------------
SELF_SD = Obj(tc.TrajectoryCalc, stability_coefficient=Real(), twist=Real())
contract(f'{TC}::TrajectoryCalc.spin_drift', props=('C05',),
         params=dict(self=SELF_SD, time=Real(lo=0)),
         ensures=[('litz-spin-drift-in-feet-signed-by-twist-absent-without-twist-or-stability',
                   'result == (0 if (self.stability_coefficient == 0 or self.twist == 0) else '
                   '(1 if self.twist > 0 else -1) * 1.25 * (self.stability_coefficient + 1.2) * math.pow(time, 1.83) / 12)')],
         modifies=[], modular=True, functional='spin_drift')

SELF_SG = Obj(tc.TrajectoryCalc, twist=Real(), length=Real(lo=0), diameter=Real(lo=0), weight=Real(lo=0),
              muzzle_velocity=Real(lo=0))
ATMO = Obj(Atmo, _pressure=QPress(Unit.InHg, Unit.hPa, value=Real(lo=0)), _temperature=QTemp(Unit.Fahrenheit, Unit.Celsius))
TWR = '(abs(self.twist) / self.diameter)'
LEN = '(self.length / self.diameter)'
contract(f'{TC}::TrajectoryCalc.calc_stability_coefficient', props=('C05',),
         params=dict(self=SELF_SG, atmo=ATMO),
         ensures=[('miller-stability-with-velocity-and-atmosphere-corrections-zero-without-dimensions',
                   'result == (0 if (self.twist == 0 or self.length == 0 or self.diameter == 0 or '
                   'raw(atmo._pressure) == 0) else '
                   f'30 * self.weight / ({TWR} * {TWR} * self.diameter * self.diameter * self.diameter * {LEN} * '
                   f'(1 + {LEN} * {LEN})) * math.pow(self.muzzle_velocity / 2800, 1.0 / 3.0) * '
                   '(((raw(atmo._temperature) + 460) / (59 + 460)) * (29.92 / (raw(atmo._pressure) / 25.4))))')],
         modifies=[])
