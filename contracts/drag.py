"""C09 - drag look-up: calculate_curve, _get_only_mach_data, _calculate_by_curve_and_mach_list,
TrajectoryCalc.drag_by_mach.  Top-level postconditions are taken from the property statement
(value at nodes, neighbouring-points parabola, last three points beyond the table, the
retardation constant); invariants and helper preconditions from the code."""
import py_ballisticcalc.trajectory_calc._trajectory_calc as tc
from py_ballisticcalc.drag_model import DragDataPoint

from pyvc.contract import contract, LoopContract, Real, Int, Rec, Obj, ListOf

TC = 'py_ballisticcalc/trajectory_calc/_trajectory_calc.py'

CURVE = ListOf(Rec(tc.CurvePoint, a=Real(), b=Real(), c=Real()), minlen=3)
POINTS = ListOf(Obj(DragDataPoint, Mach=Real(), CD=Real()), minlen=3, frozen=True)

# ---------------------------------------------------------------------------------------
# which curve entry may be used for a query: the statement's "parabola through consecutive
# tabulated points that include both neighbours of the query (straight line in the first
# interval; the last three points beyond the table)".  Entry 0 is the line through points
# 0,1; entry m>=1 the parabola through points m-1, m, m+1 (calculate_curve's contract).
NEIGHBOUR = ('forall(0, len(mach_list) - 1, lambda k: implies(mach_list[k] <= mach <= mach_list[k + 1], '
             '(m == 0 and k == 0) or (m >= 1 and m - 1 <= k <= m)))')
BEYOND = 'implies(mach > mach_list[len(mach_list) - 1], m == len(mach_list) - 2)'

contract(
    TC + '::_calculate_by_curve_and_mach_list',
    props=('C09', 'C01'),
    params=dict(mach_list=ListOf(Real(), minlen=3), curve=CURVE, mach=Real()),
    requires=[('same-length', 'len(curve) == len(mach_list)'),
              ('ascending', 'forall(0, len(mach_list), lambda i: forall(i + 1, len(mach_list), lambda j: mach_list[i] < mach_list[j]))')],
    loops={0: LoopContract(
        invariants=[('bounds', '0 <= mlo < mhi <= len(curve) - 2'),
                    ('below', 'mlo == 0 or mach_list[mlo] < mach'),
                    ('above', 'mhi == len(curve) - 2 or mach_list[mhi] >= mach')],
        variant='mhi - mlo')},
    ensures=[
        dict(label='value-on-selected-entry',
             src='exists(0, len(curve) - 1, lambda m: result == curve[m].c + mach * (curve[m].b + curve[m].a * mach) '
                 f'and {NEIGHBOUR} and {BEYOND})', witness='m'),
    ],
    modifies=[],
    modular=True,
)
from pyvc.contract import REGISTRY  # noqa: E402
REGISTRY[TC + '::_calculate_by_curve_and_mach_list'].result_shape = Real()

# ---------------------------------------------------------------------------------------
PAR_K = ('parabola_through(data_points[k - 1].Mach, data_points[k - 1].CD, data_points[k].Mach, data_points[k].CD, '
         'data_points[k + 1].Mach, data_points[k + 1].CD, {c}[k].a, {c}[k].b, {c}[k].c)')
LINE0 = ('{c}[0].a == 0 and line_through(data_points[0].Mach, data_points[0].CD, data_points[1].Mach, '
         'data_points[1].CD, {c}[0].b, {c}[0].c)')

contract(
    TC + '::calculate_curve',
    props=('C09', 'C01'),
    params=dict(data_points=POINTS),
    requires=[('ascending', 'forall(0, len(data_points), lambda i: forall(i + 1, len(data_points), lambda j: data_points[i].Mach < data_points[j].Mach))')],
    loops={0: LoopContract(
        invariants=[('length', 'len(curve) == _i + 1'),
                    ('first-is-line', LINE0.format(c='curve')),
                    ('interior-parabolas', 'forall(1, _i + 1, lambda k: ' + PAR_K.format(c='curve') + ')')],
        lemmas_end=[('new-entry-interpolates-its-three-points',
                     'parabola_through(x1, y1, x2, y2, x3, y3, a, b, c)')],
    )},
    ensures=[
        ('one-entry-per-point', 'len(result) == len(data_points)'),
        ('first-entry-is-line-through-points-0-1', LINE0.format(c='result')),
        ('entry-k-is-parabola-through-points-k-1..k+1',
         'forall(1, len(data_points) - 1, lambda k: ' + PAR_K.format(c='result') + ')'),
    ],
    modifies=[],
    modular=True,
    result_shape=CURVE,
    reveal=['line_through'],
)

contract(
    TC + '::_get_only_mach_data',
    props=('C09', 'C01'),
    params=dict(data=ListOf(Obj(DragDataPoint, Mach=Real(), CD=Real()), minlen=0, frozen=True)),
    loops={0: LoopContract(
        invariants=[('length', 'len(result) == _i'),
                    ('copied', 'forall(0, _i, lambda k: result[k] == data[k].Mach)')],
        types={'result': ListOf(Real())})},
    ensures=[('same-length', 'len(result) == len(data)'),
             ('mach-values', 'forall(0, len(data), lambda k: result[k] == data[k].Mach)')],
    modifies=[],
    modular=True,
    result_shape=ListOf(Real()),
)

# ---------------------------------------------------------------------------------------
# drag_by_mach: Cd x (standard air density x pi / (8 x 144)) / BC.  The closeness of the literal
# 2.08551e-04 to 0.076474*pi/1152 is the lemma 'drag-constant' of props/C09.py.
SELF = Obj(tc.TrajectoryCalc, _TrajectoryCalc__mach_list=ListOf(Real(), minlen=3), _curve=CURVE,
           _bc=Real(lo=0, lo_open=True))

contract(
    TC + '::TrajectoryCalc.drag_by_mach',
    props=('C09', 'C01'),
    params=dict(self=SELF, mach=Real()),
    requires=[('same-length', 'len(self._curve) == len(self._TrajectoryCalc__mach_list)'),
              ('ascending', 'forall(0, len(self._TrajectoryCalc__mach_list), lambda i: forall(i + 1, len(self._TrajectoryCalc__mach_list), '
                            'lambda j: self._TrajectoryCalc__mach_list[i] < self._TrajectoryCalc__mach_list[j]))')],
    ensures=[
        ('retardation-is-cd-times-constant-over-bc',
         'exists(0, len(self._curve) - 1, lambda m: result == (self._curve[m].c + mach * (self._curve[m].b + '
         'self._curve[m].a * mach)) * 2.08551e-04 / self._bc and '
         + NEIGHBOUR.replace('mach_list', 'self._TrajectoryCalc__mach_list') + ' and '
         + BEYOND.replace('mach_list', 'self._TrajectoryCalc__mach_list') + ')'),
    ],
    modifies=[], modular=True, functional='drag_by_mach',
)
