"""_TrajectoryDataFilter (C03 rows at record distances, C05 one interpolation ratio for all fields, C11 the filter
only reads the state, C15 event flags)."""
import py_ballisticcalc.trajectory_calc._trajectory_calc as tc

from pyvc.contract import contract, LoopContract, Real, Int, Obj, Rec, Enum, Const, OneOf, Flags
from .shapes import VEC

TC = 'py_ballisticcalc/trajectory_calc/_trajectory_calc.py'
UP, DOWN, MACH, RANGE = 1, 2, 4, 8


def FILTER(**over):
    f = dict(filter=Flags(), current_flag=Flags(), seen_zero=Flags(), time_step=Real(lo=0), range_step=Real(lo=0),
             time_of_last_record=Real(lo=0), next_record_distance=Real(lo=0), previous_mach=Real(lo=0), previous_time=Real(lo=0),
             previous_position=VEC, previous_velocity=VEC, previous_v_mach=Real(lo=0), look_angle=Real(lo=-1.5, hi=1.5))
    f.update(over)
    return Obj(tc._TrajectoryDataFilter, **f)


contract(f'{TC}::_TrajectoryDataFilter.setup_seen_zero', props=('C15',),
         params=dict(self=FILTER(seen_zero=Const(0)), height=Real(), barrel_elevation=Real(), look_angle=Real()),
         ensures=[('muzzle-on-or-above-the-sight-line-cannot-cross-upward',
                   'iff((self.seen_zero & 1) != 0, height >= 0)'),
                  ('barrel-below-the-sight-line-from-below-cannot-cross-at-all',
                   'iff((self.seen_zero & 2) != 0, height < 0 and barrel_elevation < look_angle)'),
                  ('keeps-the-look-angle', 'self.look_angle == look_angle')],
         modifies=['self.seen_zero', 'self.look_angle'])

REF = 'range_vector.x * math.tan(self.look_angle)'
contract(f'{TC}::_TrajectoryDataFilter.check_zero_crossing', props=('C15',),
         params=dict(self=FILTER(), range_vector=VEC),
         requires=[('flags-not-yet-set-this-step', '(self.current_flag & 3) == 0')],
         ensures=[
             ('seen-flags-only-grow', '(self.seen_zero & old(self.seen_zero)) == old(self.seen_zero)'),
             ('zero-up-flagged-exactly-at-the-first-point-on-or-above-the-sight-line-beyond-the-muzzle',
              f'iff((self.current_flag & 1) != 0, range_vector.x > 0 and (old(self.seen_zero) & 1) == 0 and '
              f'range_vector.y >= {REF})'),
             ('zero-down-flagged-exactly-at-the-first-point-below-the-sight-line-after-the-upward-crossing',
              f'iff((self.current_flag & 2) != 0, range_vector.x > 0 and (old(self.seen_zero) & 1) != 0 and '
              f'(old(self.seen_zero) & 2) == 0 and range_vector.y < {REF})'),
             ('a-flagged-crossing-is-remembered-so-it-is-flagged-at-most-once',
              '(self.seen_zero & 3) == ((old(self.seen_zero) | self.current_flag) & 3)'),
             ('other-flags-untouched', '(self.current_flag & 28) == (old(self.current_flag) & 28)'),
         ],
         modifies=['self.current_flag', 'self.seen_zero'])

contract(f'{TC}::_TrajectoryDataFilter.check_mach_crossing', props=('C15',),
         params=dict(self=FILTER(), velocity=Real(lo=0), mach=Real(lo=0, lo_open=True)),
         requires=[('mach-flag-not-yet-set-this-step', '(self.current_flag & 4) == 0')],
         ensures=[('mach-flagged-exactly-when-speed-falls-through-the-speed-of-sound-in-this-step',
                   'iff((self.current_flag & 4) != 0, old(self.previous_v_mach) > 1 and velocity / mach <= 1)'),
                  ('remembers-this-steps-mach-number', 'self.previous_v_mach == velocity / mach'),
                  ('other-flags-untouched', '(self.current_flag & 27) == (old(self.current_flag) & 27)')],
         modifies=['self.current_flag', 'self.previous_v_mach'])

contract(f'{TC}::_TrajectoryDataFilter.check_next_time', props=('C03',),
         params=dict(self=FILTER(), time=Real(lo=0)),
         ensures=[('time-row-when-more-than-the-time-step-has-passed-since-the-last-row',
                   'iff((self.current_flag & 8) != (old(self.current_flag) & 8) or ((old(self.current_flag) & 8) != 0 and '
                   'self.time_of_last_record == time and time > old(self.time_of_last_record) + self.time_step), '
                   'time > old(self.time_of_last_record) + self.time_step and '
                   '((old(self.current_flag) & 8) == 0 or self.time_of_last_record == time))'),
                  ('records-the-time-of-the-row', 'implies(time > old(self.time_of_last_record) + self.time_step, '
                                                 'self.time_of_last_record == time and (self.current_flag & 8) != 0)'),
                  ('otherwise-nothing-changes', 'implies(time <= old(self.time_of_last_record) + self.time_step, '
                                                'self.time_of_last_record == old(self.time_of_last_record) and '
                                                'self.current_flag == old(self.current_flag))')],
         modifies=['self.current_flag', 'self.time_of_last_record'])

# ------------------------------------------------------------------------------------------ should_record
X = 'position.x'
NX = 'old(self.next_record_distance)'
PX = 'old(self.previous_position.x)'
REC = '(self.next_record_distance - self.range_step)'         # the distance just recorded
RANGE_BRANCH = f'(self.range_step > 0 and {X} >= {NX})'
RATIO = f'(({REC} - {PX}) / ({X} - {PX}))'
INTERP = ('result.{f} == old(self.previous_{f}) + ({c} - old(self.previous_{f})) * ' + RATIO)
contract(f'{TC}::_TrajectoryDataFilter.should_record', props=('C03', 'C05', 'C11', 'C15'),
         params=dict(self=FILTER(), position=VEC, velocity=VEC, mach=Real(lo=0, lo_open=True), time=Real(lo=0)),
         requires=[('flags-cleared-at-the-start-of-the-step', 'self.current_flag == 0'),
                   ('range-rows-are-requested', '(self.filter & 8) != 0'),
                   ('time-moves-forward', 'time >= self.previous_time and time >= self.time_of_last_record')],
         loops={0: LoopContract(
             ghost_init={'nx0': 'self.next_record_distance'},
             invariants=[('still-at-or-before-the-projectile', 'self.next_record_distance <= position.x'),
                         ('advanced-by-whole-steps', 'self.next_record_distance >= nx0'),
                         ('step-positive', 'self.range_step > 0'),
                         ('moved-only-if-a-whole-step-fitted', 'self.next_record_distance == nx0 or nx0 + self.range_step < position.x')],
             variant='position.x - self.next_record_distance', variant_dec_expr='self.range_step')},
         ensures=[
             ('range-row-exactly-at-the-record-distance',
              f'(result is not None and result.position.x == {REC}) if ({RANGE_BRANCH} and {X} > {PX}) else True'),
             ('recorded-distance-is-the-last-multiple-not-beyond-the-projectile',
              f'implies({RANGE_BRANCH}, {REC} <= {X} and {X} <= {REC} + self.range_step and {REC} >= {NX})'),
             ('no-multiple-is-skipped-when-a-step-advances-by-at-most-the-record-step',
              f'implies({RANGE_BRANCH} and {X} - {PX} <= self.range_step and {NX} >= {PX}, {REC} == {NX})'),
             ('all-fields-of-a-range-row-use-one-interpolation-ratio',
              f'True if result is None else (True if not ({RANGE_BRANCH} and {X} > {PX}) else (' + ' and '.join([
                  INTERP.format(f='time', c='time'), INTERP.format(f='mach', c='mach'),
                  INTERP.format(f='position.x', c='position.x').replace('result.position.x', 'result.position.x'),
                  INTERP.format(f='position.y', c='position.y'), INTERP.format(f='position.z', c='position.z'),
                  INTERP.format(f='velocity.x', c='velocity.x'), INTERP.format(f='velocity.y', c='velocity.y'),
                  INTERP.format(f='velocity.z', c='velocity.z')]) + '))'),
             ('interpolation-ratio-within-the-step',
              f'implies({RANGE_BRANCH} and {X} > {PX} and {NX} >= {PX} and {X} - {PX} <= self.range_step, '
              f'0 <= {RATIO} <= 1)'),
             ('range-flag-and-bookkeeping',
              f'implies({RANGE_BRANCH}, (self.current_flag & 8) != 0 and self.time_of_last_record == time)'),
             ('time-row-only-when-no-range-row-and-the-time-step-has-passed',
              f'implies(not {RANGE_BRANCH}, iff((self.current_flag & 8) != 0, self.time_step > 0 and '
              f'time > old(self.time_of_last_record) + self.time_step) and self.next_record_distance == {NX})'),
             ('other-rows-are-the-current-state',
              f'(result.time == time and '
              'result.mach == mach and result.position.x == position.x and result.position.y == position.y and '
              'result.position.z == position.z and result.velocity.x == velocity.x and result.velocity.y == velocity.y '
              f'and result.velocity.z == velocity.z) if (result is not None and not ({RANGE_BRANCH} and {X} > {PX})) '
              'else True'),
             ('a-row-is-returned-exactly-when-a-requested-flag-is-raised',
              'iff(result is None, (self.current_flag & self.filter) == 0)'),
             ('remembers-the-current-state-for-the-next-step',
              'self.previous_time == time and self.previous_mach == mach and self.previous_position.x == position.x and '
              'self.previous_position.y == position.y and self.previous_position.z == position.z and '
              'self.previous_velocity.x == velocity.x and self.previous_velocity.y == velocity.y and '
              'self.previous_velocity.z == velocity.z'),
             ('zero-up-flag', f'iff((self.current_flag & 1) != 0, {X} > 0 and (old(self.seen_zero) & 1) == 0 and '
                              f'position.y >= {X} * math.tan(self.look_angle))'),
             ('zero-down-flag', f'iff((self.current_flag & 2) != 0, {X} > 0 and (old(self.seen_zero) & 1) != 0 and '
                                f'(old(self.seen_zero) & 2) == 0 and position.y < {X} * math.tan(self.look_angle))'),
             ('seen-flags', '(self.seen_zero & 3) == ((old(self.seen_zero) | self.current_flag) & 3)'),
             ('mach-flag', 'iff((self.current_flag & 4) != 0, old(self.previous_v_mach) > 1 and '
                           'math.sqrt(velocity.x * velocity.x + velocity.y * velocity.y + velocity.z * velocity.z) / mach <= 1)'),
             ('time-of-last-record-is-the-old-one-or-now',
              'self.time_of_last_record == old(self.time_of_last_record) or self.time_of_last_record == time'),
             ('settings-untouched', 'self.filter == old(self.filter) and self.range_step == old(self.range_step) and '
                                    'self.time_step == old(self.time_step) and self.look_angle == old(self.look_angle)'),
         ],
         modifies=['self.current_flag', 'self.seen_zero', 'self.time_of_last_record', 'self.next_record_distance',
                   'self.previous_mach', 'self.previous_time', 'self.previous_position', 'self.previous_velocity',
                   'self.previous_v_mach'],
         modular=True,
         result_shape=OneOf(Const(None), Rec(tc.BaseTrajData, time=Real(), position=VEC, velocity=VEC, mach=Real())))

# ---- history harnesses on a filter built by its real constructor (whatever fields it has) ------------------
SF = 'verif:contracts/specfn.py'
contract(f'{SF}::mach_flags_over_four_steps', props=('C15',),
         params=dict(v1=Real(lo=0, hi=3), v2=Real(lo=0, hi=3), v3=Real(lo=0, hi=3), v4=Real(lo=0, hi=3)),
         ensures=[('mach-row-each-time-the-speed-falls-through-the-speed-of-sound',
                   'result[0] == (v1 > 1 and v2 <= 1) and result[1] == (v2 > 1 and v3 <= 1) and result[2] == (v3 > 1 and v4 <= 1)')],
         modifies=[])
T = 'math.tan(look)'
contract(f'{SF}::zero_flags_over_three_points', props=('C15',),
         params=dict(sight_height_neg=Real(lo=0.01, hi=1), look=Real(lo=-1, hi=1), y1=Real(), y2=Real(), y3=Real()),
         ensures=[
             ('zero-up-at-the-first-point-on-or-above-the-sight-line-once',
              f'((result[0] & 1) != 0) == (y1 >= 1 * {T}) and ((result[1] & 1) != 0) == (y1 < 1 * {T} and y2 >= 2 * {T}) and '
              f'((result[2] & 1) != 0) == (y1 < 1 * {T} and y2 < 2 * {T} and y3 >= 3 * {T})'),
             ('zero-down-at-the-first-point-below-the-line-after-the-upward-crossing-once',
              f'((result[0] & 2) != 0) == False and ((result[1] & 2) != 0) == (y1 >= 1 * {T} and y2 < 2 * {T}) and '
              f'((result[2] & 2) != 0) == ((y1 >= 1 * {T} and y2 >= 2 * {T} and y3 < 3 * {T}) or '
              f'(y1 < 1 * {T} and y2 >= 2 * {T} and y3 < 3 * {T}))'),
         ],
         modifies=[])
