"""C07 - preferred units only choose how bare numbers and output are read."""
import py_ballisticcalc.unit as U
from py_ballisticcalc.unit import Unit
import contracts.specfn as S

from pyvc.contract import contract, Real, Obj, Enum, Const, OneOf, Quantity
from .shapes import QDist, QAng, QVel, QTemp, QPress, QWeight

SF = 'verif:contracts/specfn.py'
DISPLAY_ONLY = ['*._defined_units', 'PreferredUnits.*']

# (factory, parameter, field of the built object, preferred slot, dimension class, units tried, value range)
ANG = Real(lo=-3, hi=3)
PARAMS = [
    ('mk_atmo', 'altitude', '_altitude', 'distance', U.Distance, [Unit.Yard, Unit.Meter], Real(lo=-500, hi=5000)),
    ('mk_atmo', 'pressure', '_pressure', 'pressure', U.Pressure, [Unit.InHg, Unit.hPa], Real(lo=0, hi=1100)),   # bare 0: see known finding C07/pressure
    ('mk_atmo', 'temperature', '_temperature', 'temperature', U.Temperature, [Unit.Fahrenheit, Unit.Celsius], Real(lo=-60, hi=130)),
    ('mk_atmo', 'powder_t', '_powder_temp', 'temperature', U.Temperature, [Unit.Fahrenheit, Unit.Celsius], Real(lo=-60, hi=130)),
    ('mk_icao', 'altitude', '_altitude', 'distance', U.Distance, [Unit.Yard, Unit.Meter], Real(lo=-400, hi=5000)),
    ('mk_icao', 'temperature', '_temperature', 'temperature', U.Temperature, [Unit.Fahrenheit, Unit.Celsius], Real(lo=-60, hi=130)),
    ('mk_wind', 'velocity', 'velocity', 'velocity', U.Velocity, [Unit.FPS, Unit.MPS], Real(lo=0, hi=100)),
    ('mk_wind', 'direction_from', 'direction_from', 'angular', U.Angular, [Unit.Degree, Unit.Radian], ANG),
    ('mk_wind', 'until_distance', 'until_distance', 'distance', U.Distance, [Unit.Yard, Unit.Meter], Real(lo=0, hi=5000)),
    ('mk_weapon', 'sight_height', 'sight_height', 'sight_height', U.Distance, [Unit.Inch, Unit.Centimeter], Real(lo=-10, hi=10)),
    ('mk_weapon', 'twist', 'twist', 'twist', U.Distance, [Unit.Inch, Unit.Centimeter], Real(lo=-50, hi=50)),
    ('mk_weapon', 'zero_elevation', 'zero_elevation', 'angular', U.Angular, [Unit.Degree, Unit.Mil], ANG),
    ('mk_ammo', 'mv', 'mv', 'velocity', U.Velocity, [Unit.FPS, Unit.MPS], Real(lo=0, hi=5000)),
    ('mk_ammo', 'powder_temp', 'powder_temp', 'temperature', U.Temperature, [Unit.Fahrenheit, Unit.Celsius], Real(lo=-60, hi=130)),
    ('mk_shot', 'look_angle', 'look_angle', 'angular', U.Angular, [Unit.Degree, Unit.Radian], ANG),
    ('mk_shot', 'relative_angle', 'relative_angle', 'angular', U.Angular, [Unit.Degree, Unit.Mil], ANG),
    ('mk_shot', 'cant_angle', 'cant_angle', 'angular', U.Angular, [Unit.Degree, Unit.Radian], ANG),
    ('mk_sight', 'scale_factor', 'scale_factor', 'distance', U.Distance, [Unit.Yard, Unit.Meter], Real(lo=0, hi=1000)),
    ('mk_sight', 'h_click_size', 'h_click_size', 'adjustment', U.Angular, [Unit.Mil, Unit.MOA], Real(lo=0, lo_open=True, hi=10)),
    ('mk_dragmodel', 'weight', 'weight', 'weight', U.Weight, [Unit.Grain, Unit.Gram], Real(lo=0, hi=1000)),
    ('mk_dragmodel', 'diameter', 'diameter', 'diameter', U.Distance, [Unit.Inch, Unit.Millimeter], Real(lo=0, hi=50)),
    ('mk_dragmodel', 'length', 'length', 'length', U.Distance, [Unit.Inch, Unit.Millimeter], Real(lo=0, hi=100)),
    ('mk_multibc', 'weight', 'weight', 'weight', U.Weight, [Unit.Grain, Unit.Gram], Real(lo=0, hi=1000)),
    ('mk_multibc', 'diameter', 'diameter', 'diameter', U.Distance, [Unit.Inch, Unit.Millimeter], Real(lo=0, hi=50)),
    ('mk_multibc', 'length', 'length', 'length', U.Distance, [Unit.Inch, Unit.Millimeter], Real(lo=0, hi=100)),
    ('mk_bcpoint', 'V', 'V', 'velocity', U.Velocity, [Unit.FPS, Unit.MPS], Real(lo=1, hi=5000)),
]

# C17: "the velocity the solver launches with is the one for the atmosphere's powder temperature (air temperature unless
# given)": what the atmosphere / the ammunition store for a given (bare or explicit) temperature is part of that chain
C17_TOO = {('mk_atmo', 'powder_t'), ('mk_atmo', 'temperature'), ('mk_ammo', 'powder_temp'), ('mk_ammo', 'mv')}
for fac, pname, field, slot, cls, units, rng in PARAMS:
    PROPS = ('C07', 'C17') if (fac, pname) in C17_TOO else ('C07',)
    ctor = getattr(S, fac)
    same = f'raw(result[0].{field}) == raw(result[1].{field})'
    if pname == 'pressure':
        # split by case so that the recorded finding (known_findings.json: C07-pressure-zero) stays narrow; an
        # explicit zero pressure makes the CIPM formula divide by zero, so the zero case is compared on the stored
        # pressure of the bare-number object alone
        ens = [('bare-pressure-nonzero-case-means-that-number-in-the-preferred-unit', f'implies(x != 0, {same})'),
               ('bare-pressure-zero-case-means-zero', f'implies(x == 0, {same})')]
    else:
        ens = [(f'bare-{pname}-means-that-number-in-the-preferred-unit-for-every-number-including-zero', same)]
    contract(f'{SF}::bare_vs_quantity', tag=f'{fac}.{pname}', props=PROPS,
             params=dict(ctor=Const(ctor, src=fac), pname=Const(pname), slot=Const(slot), unit=Enum(*units), x=rng),
             ensures=ens, modifies=DISPLAY_ONLY, reveal=['pl_sorted_ok'] if fac == 'mk_multibc' else ())
    if pname != 'pressure':
        contract(f'{SF}::bare_under_two_settings', tag=f'{fac}.{pname}', props=PROPS,
                 params=dict(ctor=Const(ctor, src=fac), pname=Const(pname), slot=Const(slot), unit_a=Const(units[0]),
                             unit_b=Const(units[1]), x=rng),
                 ensures=[(f'the-same-bare-{pname}-under-two-successive-settings-means-the-unit-in-force-each-time',
                           f'raw(result[0].{field}) == raw(result[1].{field}) and raw(result[2].{field}) == raw(result[3].{field})')],
                 modifies=DISPLAY_ONLY, reveal=['pl_sorted_ok'] if fac == 'mk_multibc' else ())
    contract(f'{SF}::quantity_under_two_settings', tag=f'{fac}.{pname}', props=PROPS,
             params=dict(ctor=Const(ctor, src=fac), pname=Const(pname), slot=Const(slot), unit_a=Const(units[0]),
                         unit_b=Const(units[1]), q=Quantity(cls, units=units[:1], value=rng)),
             ensures=[(f'explicit-{pname}-is-independent-of-the-preferred-unit',
                       f'raw(result[0].{field}) == raw(result[1].{field}) and raw(result[0].{field}) == raw(q)')],
             modifies=DISPLAY_ONLY, reveal=['pl_sorted_ok'] if fac == 'mk_multibc' else ())

POS = Real(lo=0.1, hi=100)
contract(f'{SF}::sfp_clicks_under_two_settings', props=('C07',),
         params=dict(unit_a=Const(Unit.Mil), unit_b=Enum(Unit.MOA, Unit.InchesPer100Yd),
                     h=Quantity(U.Angular, unit=Unit.Mil, value=Real(lo=0.01, hi=1)),
                     v=Quantity(U.Angular, unit=Unit.Mil, value=Real(lo=0.01, hi=1)),
                     scale=QDist(Unit.Yard, value=POS), target=QDist(Unit.Yard, value=POS),
                     drop=QAng(Unit.Mil), windage=QAng(Unit.Mil), magnification=Real(lo=1, hi=10)),
         ensures=[('sfp-clicks-from-explicit-quantities-do-not-depend-on-the-preferred-adjustment-unit',
                   'result[0].vertical == result[1].vertical and result[0].horizontal == result[1].horizontal')],
         modifies=DISPLAY_ONLY)

contract(f'{SF}::powder_sens_bare_vs_quantity', tag='temperature', props=('C07', 'C17'),
         params=dict(slot=Const('temperature'), unit=Enum(Unit.Fahrenheit, Unit.Celsius, Unit.Kelvin),
                     which=Const('temperature'), x=Real(lo=-60, hi=400),
                     other=Quantity(U.Velocity, unit=Unit.MPS, value=Real(lo=100, hi=1500))),
         raises={'ValueError': None},
         ensures=[('bare-temperature-means-that-number-in-the-preferred-unit', 'result[0] == result[1]')],
         modifies=DISPLAY_ONLY)
contract(f'{SF}::powder_sens_bare_vs_quantity', tag='velocity', props=('C07', 'C17'),
         params=dict(slot=Const('velocity'), unit=Enum(Unit.FPS, Unit.MPS), which=Const('velocity'),
                     x=Real(lo=100, hi=5000), other=Quantity(U.Temperature, unit=Unit.Celsius, value=Real(lo=-60, hi=60))),
         raises={'ValueError': None},
         ensures=[('bare-velocity-means-that-number-in-the-preferred-unit', 'result[0] == result[1]')],
         modifies=DISPLAY_ONLY)
contract(f'{SF}::velocity_for_temp_bare_vs_quantity', props=('C07', 'C17'),
         params=dict(unit=Enum(Unit.Fahrenheit, Unit.Celsius, Unit.Kelvin), x=Real(lo=-60, hi=400), modifier=Real()),
         ensures=[('bare-temperature-means-that-number-in-the-preferred-unit', 'raw(result[0]) == raw(result[1])')],
         modifies=DISPLAY_ONLY)

contract(f'{SF}::atmo_powder_temperature', props=('C17',),
         params=dict(temperature=OneOf(Const(None), Quantity(U.Temperature, units=[Unit.Celsius, Unit.Fahrenheit],
                                                             value=Real(lo=-60, hi=130))),
                     powder_t=OneOf(Const(None), Quantity(U.Temperature, units=[Unit.Celsius, Unit.Fahrenheit],
                                                          value=Real(lo=-60, hi=130)))),
         ensures=[('powder-temperature-is-the-air-temperature-unless-given',
                   'implies(powder_t is None, raw(result._powder_temp) == raw(result._temperature))'),
                  ('a-given-powder-temperature-is-kept',
                   '(raw(result._powder_temp) == raw(powder_t)) if powder_t is not None else True'),
                  ('a-given-air-temperature-is-kept',
                   '(raw(result._temperature) == raw(temperature)) if temperature is not None else True')],
         modifies=DISPLAY_ONLY)
