"""C14 - drag_model.py: linear_interpolation, DragModelMultiBC, BCPoint; make_data_points (C09 frame)."""
import py_ballisticcalc.drag_model as D
import py_ballisticcalc.unit as U
from py_ballisticcalc.unit import Unit

from pyvc.contract import (contract, LoopContract, Real, Int, Obj, Rec, Enum, Const, OneOf, ListOf, FixedList, DictOf)
from .shapes import QWeight, QDist, QVel

DM = 'py_ballisticcalc/drag_model.py'
DISPLAY_ONLY = ['*._defined_units']

SORTED_XP = 'forall(0, len(xp), lambda i: forall(i + 1, len(xp), lambda j: xp[i] <= xp[j]))'
contract(f'{DM}::linear_interpolation', props=('C14',),
         params=dict(x=ListOf(Real()), xp=ListOf(Real(), minlen=1), yp=ListOf(Real(), minlen=1)),
         requires=[('same-length', 'len(xp) == len(yp)'), ('xp-non-decreasing', SORTED_XP)],
         loops={
             0: LoopContract(invariants=[
                 ('one-value-per-point-so-far', 'len(y) == _i'),
                 ('values-so-far-are-the-interpolant', 'forall(0, _i, lambda k: pl_sorted_ok(xp, yp, len(xp), x[k], y[k]))')],
                 lemmas_end=[('newest-value-is-the-interpolant',
                              'pl_sorted_ok(xp, yp, len(xp), x[_i - 1], y[_i - 1])')],
                 types={'y': ListOf(Real())}),
             1: LoopContract(invariants=[
                 ('bracket', '0 <= left < right <= len(xp) - 1 and xp[left] <= xi < xp[right]'),
                 ('nothing-appended-yet', 'len(y) == _i'),
                 ('earlier-values-kept', 'forall(0, _i, lambda k: pl_sorted_ok(xp, yp, len(xp), x[k], y[k]))')],
                 variant='right - left', index='_j'),
         },
         ensures=[('one-value-per-query-point', 'len(result) == len(x)'),
                  ('clamped-piecewise-linear-interpolant',
                   'forall(0, len(x), lambda k: pl_sorted_ok(xp, yp, len(xp), x[k], result[k]))')],
         modifies=[], modular=True, result_shape=ListOf(Real()))

# ---------------------------------------------------------------------------------------
from py_ballisticcalc.drag_model import DragDataPoint, BCPoint, DragModel  # noqa: E402

TABLE = ListOf(Obj(DragDataPoint, Mach=Real(lo=0), CD=Real(lo=0, lo_open=True)), minlen=1)   # the caller's own points


def BCP():
    return Obj(BCPoint, BC=Real(lo=0, lo_open=True), Mach=Real(lo=0), V=Const(None))


PTS = OneOf(FixedList(BCP()), FixedList(BCP(), BCP()))       # 3+ points: see props/C14.py (bounded stand-in)
T0 = 'old(drag_table)'
contract(f'{DM}::DragModelMultiBC', props=('C14',),
         params=dict(bc_points=PTS, drag_table=TABLE,
                     weight=OneOf(Const(0), QWeight(Unit.Grain, value=Real(lo=0, lo_open=True))),
                     diameter=OneOf(Const(0), QDist(Unit.Inch, value=Real(lo=0, lo_open=True))),
                     length=Const(0)),
         # weight and diameter together or not at all; two points with a sectional-density model BC leave one
         # nonlinear step undecided by z3/cvc5 (unknown): that combination is covered by the bounded stand-in only
         instance_filter=lambda inst: (isinstance(inst['weight'], Const)) == (isinstance(inst['diameter'], Const))
         and (isinstance(inst['weight'], Const) or len(inst['bc_points'].elems) == 1),
         loops={0: LoopContract(
             ghost_init={'cd0': '[p.CD for p in drag_table]', 'm0': '[p.Mach for p in drag_table]'},
             invariants=[
                 ('scaled-so-far', 'forall(0, _i, lambda k: drag_table[k].CD == cd0[k] / bc_interp[k])'),
                 ('rest-untouched', 'forall(_i, len(drag_table), lambda k: drag_table[k].CD == cd0[k])'),
                 ('mach-untouched', 'forall(0, len(drag_table), lambda k: drag_table[k].Mach == m0[k])')])},
         ensures=[
             ('same-mach-nodes-as-the-table',
              f'len(result.drag_table) == len({T0}) and forall(0, len({T0}), lambda i: '
              f'result.drag_table[i].Mach == {T0}[i].Mach)'),
             # three route steps over the function's own locals (bc, bc_interp), then the statement's clause
             ('step-model-bc', 'result.BC == bc', 'route'),
             ('step-cd-scaled-by-interpolated-ratio',
              f'forall(0, len({T0}), lambda i: result.drag_table[i].CD * bc_interp[i] == {T0}[i].CD and '
              f'bc_interp[i] != 0)', 'route'),
             ('step-ratio-times-model-bc-is-the-interpolant-of-the-points',
              f'forall(0, len({T0}), lambda i: pl_points_ok(old(bc_points), len(old(bc_points)), {T0}[i].Mach, '
              f'bc * bc_interp[i]))', 'route'),
             ('effective-bc-is-the-interpolated-bc-of-the-given-points-whatever-their-order',
              f'forall(0, len({T0}), lambda i: pl_points_ok(old(bc_points), len(old(bc_points)), {T0}[i].Mach, '
              f'{T0}[i].CD * result.BC / result.drag_table[i].CD))'),
         ],
         modifies=DISPLAY_ONLY,          # nothing else: neither the table passed in, nor its points, nor bc_points
         reveal=['pl_sorted_ok'])

contract(f'{DM}::make_data_points', props=('C09', 'C14'),
         params=dict(drag_table=OneOf(ListOf(Obj(DragDataPoint, Mach=Real(), CD=Real())),
                                      FixedList(DictOf(Mach=Real(), CD=Real()), DictOf(Mach=Real(), CD=Real()),
                                                DictOf(Mach=Real(), CD=Real())))),
         ensures=[('one-point-per-row-same-values',
                   'len(result) == len(drag_table) and forall(0, len(drag_table), lambda k: result[k].Mach == '
                   '(drag_table[k].Mach if isinstance(drag_table[k], DragDataPoint) else drag_table[k]["Mach"]) and '
                   'result[k].CD == (drag_table[k].CD if isinstance(drag_table[k], DragDataPoint) else '
                   'drag_table[k]["CD"]))')],
         modifies=[])

contract(f'{DM}::BCPoint.__init__', props=('C14',),
         params=dict(self=Obj(BCPoint), BC=Real(), Mach=OneOf(Const(None), Real()),
                     V=OneOf(Const(None), QVel(Unit.MPS, Unit.FPS))),
         raises={'ValueError': 'BC <= 0 or ((Mach is not None and Mach != 0) and (V is not None)) or '
                               '((Mach is None or Mach == 0) and V is None)'},
         ensures=[('keeps-bc', 'self.BC == BC'),
                  ('mach-given-or-velocity-over-standard-sea-level-speed-of-sound',
                   'self.Mach == (raw(V) / (math.sqrt(15.0 + 273.15) * 20.0467) if V is not None else Mach)')],
         modifies=['self.*'] + DISPLAY_ONLY)
