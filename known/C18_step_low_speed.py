#!/venv/bin/python
"""Witness of known finding C18-step-low-speed: vertical 100 fps shot with cMinimumVelocity = 0: near the apex (air speed
below 1 fps) the time step saturates at calc_step seconds and the next step advances ~2 ft with the 0.5 ft maximum.
Exits 1 while the defect is present."""
import math, os, sys, warnings
warnings.simplefilter('ignore')
sys.path.insert(0, os.environ.get('PYTHONPATH', '/repo').split(':')[0] or '/repo')
from py_ballisticcalc import *
calc = Calculator(_config={'cMinimumVelocity': 0, 'cMaximumDrop': -10})
shot = Shot(Weapon(Unit.Inch(2), 0), Ammo(DragModel(0.3, TableG7), Unit.FPS(100)), relative_angle=Unit.Degree(90))
try:
    tr = calc.fire(shot, Unit.Yard(60), Unit.Yard(60), extra_data=True, time_step=1e-9).trajectory
except RangeError as e:
    tr = e.incomplete_trajectory
mx = max(math.hypot((b.distance >> Unit.Foot) - (a.distance >> Unit.Foot), (b.height >> Unit.Foot) - (a.height >> Unit.Foot))
         for a, b in zip(tr, tr[1:]))
print('largest integration step:', mx, 'ft (configured maximum 0.5 ft)')
sys.exit(1 if mx > 0.5 * (1 + 1e-9) else 0)
