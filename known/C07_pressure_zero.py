#!/venv/bin/python
"""Witness of known finding C07/pressure-zero: a bare pressure of 0 is replaced by the standard pressure
(while the explicit quantity Pressure(0) is taken literally and then fails in the CIPM density formula).
Exits 1 while the defect is present, 0 once it is gone."""
import sys, warnings
warnings.simplefilter('ignore')
import os; sys.path.insert(0, os.environ.get('PYTHONPATH', '/repo').split(':')[0] or '/repo')
from py_ballisticcalc import Atmo, Unit
a = Atmo(pressure=0)
print('Atmo(pressure=0).pressure =', a.pressure >> Unit.hPa, 'hPa')
sys.exit(1 if (a.pressure >> Unit.hPa) != 0 else 0)
