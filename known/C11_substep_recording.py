#!/venv/bin/python
"""Witness of known finding C11-substep-recording: 2600 fps load, range 50 ft: the card recorded every 0.1 ft (below the
0.25 ft integration step) lacks the row at 50 ft that the 10 ft card has.  Exits 1 while the defect is present."""
import os, sys, warnings
warnings.simplefilter('ignore')
sys.path.insert(0, os.environ.get('PYTHONPATH', '/repo').split(':')[0] or '/repo')
from py_ballisticcalc import *
shot = Shot(Weapon(Unit.Inch(2), Unit.Inch(12)), Ammo(DragModel(0.3, TableG7), Unit.FPS(2600)))
fine = [round(r.distance >> Unit.Foot, 6) for r in Calculator().fire(shot, Unit.Foot(50), Unit.Foot(0.1)).trajectory]
coarse = [round(r.distance >> Unit.Foot, 6) for r in Calculator().fire(shot, Unit.Foot(50), Unit.Foot(10)).trajectory]
missing = [d for d in coarse if d not in fine]
print(len(fine), 'rows in the 0.1 ft card, last at', fine[-1], 'ft; rows of the 10 ft card missing from it:', missing)
sys.exit(1 if missing else 0)
