#!/venv/bin/python
"""Witness of known finding C03-step-exceeds-range: range 100 yd with a 300 yd step returns a second row at the terminal
integration point (100.16 yd), which is not a multiple of the step.  Exits 1 while the defect is present."""
import os, sys, warnings
warnings.simplefilter('ignore')
sys.path.insert(0, os.environ.get('PYTHONPATH', '/repo').split(':')[0] or '/repo')
from py_ballisticcalc import *
shot = Shot(Weapon(Unit.Inch(2), Unit.Inch(12)), Ammo(DragModel(0.3, TableG7), Unit.FPS(2700)))
tr = Calculator().fire(shot, Unit.Yard(100), Unit.Yard(300)).trajectory
ds = [r.distance >> Unit.Yard for r in tr]
print('rows at', ds, 'yd; the only multiple of 300 yd up to 100 yd is 0')
sys.exit(1 if any(abs(d / 300 - round(d / 300)) > 1e-9 for d in ds) else 0)
