#!/venv/bin/python
"""Witness of known finding C03-tail-wind: 800 fps load, 64 fps tail wind, range = step = 325 yd: the row at 325 yd is
missing (the loop leaves before it is interpolated).  Exits 1 while the defect is present."""
import os, sys, warnings
warnings.simplefilter('ignore')
sys.path.insert(0, os.environ.get('PYTHONPATH', '/repo').split(':')[0] or '/repo')
from py_ballisticcalc import *
shot = Shot(Weapon(Unit.Inch(2), Unit.Inch(12)), Ammo(DragModel(0.3, TableG7), Unit.FPS(800)), winds=[Wind(Unit.FPS(64), Unit.Degree(0))])
tr = Calculator().fire(shot, Unit.Yard(325), Unit.Yard(325)).trajectory
ds = [r.distance >> Unit.Yard for r in tr]
print('rows at', ds, 'yd; requested 0 and 325')
sys.exit(1 if not any(abs(d - 325) < 1e-6 for d in ds) else 0)
