#!/venv/bin/python
"""Witness of known finding C02-inclined: zeroing on a 10 degree sight line at 300 yd misses the aim point by far more
than the zero-finding accuracy.  Exits 1 while the defect is present."""
import math, os, sys, warnings
warnings.simplefilter('ignore')
sys.path.insert(0, os.environ.get('PYTHONPATH', '/repo').split(':')[0] or '/repo')
from py_ballisticcalc import *
shot = Shot(Weapon(Unit.Inch(2), Unit.Inch(12)), Ammo(DragModel(0.3, TableG7), Unit.FPS(2700)), look_angle=Unit.Degree(10))
calc = Calculator()
calc.set_weapon_zero(shot, Unit.Yard(300))
tr = calc.fire(shot, Unit.Yard(400), Unit.Foot(math.cos(math.radians(10)) * 900)).trajectory
miss = abs(tr[1].target_drop >> Unit.Foot)
print('miss at the aim point:', miss, 'ft (accuracy 5e-6 ft)')
sys.exit(1 if miss > 0.005 else 0)
