#!/bin/bash
# usage: try_patch.sh <patch.diff> <PROP> [more PROPs]  -- run checks against a scratch worktree of /repo with the patch applied
PATCH=$(realpath $1); shift
WT=/tmp/mut_$$
git -C /repo worktree add --detach $WT HEAD >/dev/null 2>&1 || exit 2
( cd $WT && git apply $PATCH ) || { echo "patch does not apply"; git -C /repo worktree remove --force $WT; exit 2; }
mkdir -p /tmp/mut_evidence_$$
for P in "$@"; do
  cp /verif/evidence/$P.json /tmp/mut_evidence_$$/ 2>/dev/null
  PYVC_REPO=$WT /verif/check $P 2>&1 | grep -E "^(VIOLATION|UNDECIDED|CHECKER-FAULT|KNOWN|$P:)" | cut -c1-400
  echo "exit=${PIPESTATUS[0]}"
  cp /tmp/mut_evidence_$$/$P.json /verif/evidence/ 2>/dev/null
done
rm -rf /tmp/mut_evidence_$$
git -C /repo worktree remove --force $WT
