#!/bin/bash
# run every registered check on /repo (quick tier), one summary line each
cd /verif
for f in props/C*.py; do p=$(basename $f .py); ./check $p 2>/dev/null | tail -1 | cut -c1-170; done
