#!/bin/bash
# usage: confirm_seed.sh <PROP> <N> [SRC_DIR]   -- confirms seed N produced in /tmp/seed_<PROP> and stores it under /verif/seeded/<PROP>-<N>/
# Confirms: patch applies to /repo HEAD; full suite still passes with it (108 passed); demo fails with it, passes without.
set -u
P=$1; N=$2
SRC=${3:-/tmp/seed_$P}
WT=/tmp/confirm_${P}_$N
OUT=/verif/seeded/$P-$N
rm -rf $WT; git -C /repo worktree prune
git -C /repo worktree add --detach $WT HEAD >/dev/null 2>&1 || { echo "worktree failed"; exit 2; }
cp $SRC/seed${N}_demo.py $WT/ 
cd $WT
/venv/bin/python seed${N}_demo.py > /tmp/confirm_${P}_${N}_demo_clean.txt 2>&1; RC_CLEAN=$?
git apply $SRC/seed${N}_patch.diff 2>/dev/null || git apply --3way $SRC/seed${N}_patch.diff; RC_APPLY=$?
git diff HEAD -- py_ballisticcalc > /tmp/confirm_${P}_${N}_rebased.diff
/venv/bin/python seed${N}_demo.py > /tmp/confirm_${P}_${N}_demo_patched.txt 2>&1; RC_PATCHED=$?
/venv/bin/python -m pytest -q -p no:cacheprovider --timeout=900 --continue-on-collection-errors 2>&1 | tail -3 > /tmp/confirm_${P}_${N}_tests.txt
TESTS=$(grep -o '[0-9]* passed' /tmp/confirm_${P}_${N}_tests.txt | head -1)
FAILED=$(grep -o '[0-9]* failed' /tmp/confirm_${P}_${N}_tests.txt | head -1)
cd /; git -C /repo worktree remove --force $WT
echo "$P-$N apply=$RC_APPLY demo_clean_rc=$RC_CLEAN demo_patched_rc=$RC_PATCHED tests='$TESTS' failed='$FAILED'"
if [ "$RC_APPLY" = 0 ] && [ "$RC_CLEAN" = 0 ] && [ "$RC_PATCHED" = 1 ] && [ "$TESTS" = "108 passed" ] && [ -z "$FAILED" ]; then
  mkdir -p $OUT
  cp /tmp/confirm_${P}_${N}_rebased.diff $OUT/patch.diff
  cp $SRC/seed${N}_demo.py $OUT/demo.py
  python3 - <<PY
import json
m=json.load(open("$SRC/seed${N}_meta.json"))
m.update({"property":"$P","confirmed":{"patch_applies_to_repo_HEAD":True,"suite_with_patch":"$TESTS, 0 failed (cmd: /venv/bin/python -m pytest -q -p no:cacheprovider --timeout=900 --continue-on-collection-errors, in a scratch worktree)","demo_on_pinned_tree_exit":$RC_CLEAN,"demo_with_patch_exit":$RC_PATCHED},"origin":"independent sub-agent given only the property text and a scratch worktree"})
json.dump(m,open("$OUT/meta.json","w"),indent=1)
PY
  echo "CONFIRMED -> $OUT"
else
  echo "NOT CONFIRMED $P-$N"
fi
