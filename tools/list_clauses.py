"""usage: python3-vt tools/list_clauses.py C12 -- the contract clauses that carry a property (for writing props/<id>.py and DESIGN.md)"""
import sys
sys.path[:0] = ['/verif', '/repo']
import warnings
warnings.simplefilter('ignore')
from pyvc.cli import load_contracts
reg = load_contracts()
pid = sys.argv[1]
for k, c in reg.items():
    if pid not in c.props and not any(pid in cl.props for cl in c.ensures):
        continue
    own = pid in c.props
    print(f'## {k}  [{"whole contract" if own else "clauses"}] modular={getattr(c,"modular",None)}')
    for cl in c.ensures:
        if own and not cl.props or pid in cl.props:
            print(f'   ensures {cl.label}   role={cl.role}')
    for en, cond in (c.raises or {}).items():
        print(f'   raises {en}: {cond}')
    for lc in (getattr(c, 'loops', None) or {}).values() if isinstance(getattr(c, 'loops', None), dict) else (getattr(c, 'loops', None) or []):
        for nm in ('invariants', 'entry', 'step', 'lemmas_end', 'independent'):
            for x in getattr(lc, nm, None) or []:
                lab = getattr(x, 'label', None) or (x[0] if isinstance(x, tuple) else str(x))
                print(f'   loop {nm}: {lab}')
