#!/bin/bash
# every registered check, thorough tier, evidence redirected (so that the committed quick-tier evidence stays)
cd /verif
for f in props/C*.py; do p=$(basename $f .py); PYVC_EVIDENCE_DIR=${EVDIR:-/tmp/ev_thorough} ./check $p --tier thorough 2>/dev/null | tail -1 | cut -c1-230; done
