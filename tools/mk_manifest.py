#!/usr/bin/env python3
"""Regenerate /verif/MANIFEST.json from props/*.py metadata."""
import importlib.util
import json
import os
import sys

V = os.path.dirname(os.path.dirname(os.path.abspath(__file__)))
props = [json.loads(l)['id'] for l in open(os.path.join(V, 'properties.jsonl'))]
checks, na = [], []
for p in props:
    f = os.path.join(V, 'props', f'{p}.py')
    if not os.path.exists(f):
        na.append({'property_id': p, 'reason': 'check not built yet in this session (planned contracts: DESIGN.md section 5); '
                                                'not claimed'})
        continue
    spec = importlib.util.spec_from_file_location(f'props_{p}', f)
    m = importlib.util.module_from_spec(spec)
    sys.path.insert(0, V)
    spec.loader.exec_module(m)
    if getattr(m, 'NOT_APPLICABLE', None):
        na.append({'property_id': p, 'reason': m.NOT_APPLICABLE})
        continue
    checks.append({
        'property_id': p,
        'quick_cmd': f'./check {p} --tier quick',
        'thorough_cmd': f'./check {p} --tier thorough',
        'evidence_file': f'evidence/{p}.json',
        'replay_cmd_template': f'./check {p} --replay {{path}}',
        'engine': 'pyvc',
        'level_claimed': {'category': m.LEVEL, 'text': getattr(m, 'TEXT', m.EXPLANATION),
                          'design_ref': getattr(m, 'DESIGN_REF', f'DESIGN.md section 5 / {p}')},
        'level_note': getattr(m, 'NOTE', 'A-REAL (floats as reals), A-PY (modelled Python fragment, cross-checked against '
                                         'CPython on witnesses), A-LOG; trusted: z3/cvc5, CPython ast, the VC generator'),
        'technique': getattr(m, 'TECHNIQUE', 'contract-based deductive verification: sidecar contracts on the real '
                                             'functions, VCs generated from the ast of /repo on every run, discharged '
                                             'by z3 (cvc5 fallback)'),
    })
man = {
    'version': 1,
    'setup_cmd': './setup.sh',
    'hooks': {'guard': 'PYBC_VERIF',
              'enable': 'no hooks: contracts are sidecar files under /verif/contracts; nothing in /repo is instrumented',
              'baseline_off_cmd': 'cd /repo && env -u PYBC_VERIF /venv/bin/python -m pytest -ra -q -p no:cacheprovider '
                                  '--timeout=900 --continue-on-collection-errors',
              'source_commits': [], 'add_only': True},
    'engines': [{'name': 'pyvc', 'path': 'pyvc/', 'serves_properties': [c['property_id'] for c in checks],
                 'kind_free_text': 'verification-condition generator (symbolic executor over the Python ast of the '
                                   'functions in /repo, loops cut at invariants, calls at callee contracts) + z3/cvc5; '
                                   'sidecar contracts in contracts/, per-property composition in props/'}],
    'checks': checks,
    'notes': 'Genuine defects found by the checks and repaired in /repo are listed in FIXED.md; recorded (unrepaired) '
             'findings in known_findings.json. seeded/ holds independently produced property-breaking changes and '
             'seeded/RESULTS.md which checks catch them.',
    'not_applicable': na,
}
json.dump(man, open(os.path.join(V, 'MANIFEST.json'), 'w'), indent=1)
print(f'{len(checks)} checks, {len(na)} not applicable')
