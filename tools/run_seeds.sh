#!/bin/bash
# usage: run_seeds.sh [seed-dir-names...]   -- apply each stored seeded change to a scratch worktree and run its property's quick check
cd /verif
SEEDS="$@"; [ -z "$SEEDS" ] && SEEDS=$(ls seeded | grep -E '^C[0-9]+-')
run_one() {
  S=$1; P=${S%-*}
  [ -f /verif/props/$P.py ] || { echo "$S: (no check for $P yet)"; return; }
  WT=/tmp/seedrun_$S
  git -C /repo worktree add --detach $WT HEAD >/dev/null 2>&1
  ( cd $WT && ( git apply /verif/seeded/$S/patch.diff 2>/dev/null || git apply --3way /verif/seeded/$S/patch.diff ) ) || { echo "$S: patch does not apply"; git -C /repo worktree remove --force $WT; return; }
  OUT=$(cd /verif && PYVC_REPO=$WT PYVC_EVIDENCE_DIR=/tmp/seedrun_ev_$S /verif/check $P 2>&1)
  RC=$(echo "$OUT" | grep -o "exit [0-9]$" | tail -1)
  V=$(echo "$OUT" | grep -c "^VIOLATION")
  FIRST=$(echo "$OUT" | grep -A1 "^VIOLATION" | grep obligation: | head -1 | sed 's/.*:://' | cut -c1-110)
  NF=$(echo "$OUT" | grep "^VIOLATION" | grep -c "no-failing-input-found")
  echo "$S: $RC violations=$V (no-failing-input=$NF) first=[$FIRST] $(echo "$OUT" | grep -E '^(CHECKER-FAULT|UNDECIDED)' | head -1 | cut -c1-160)"
  rm -rf /tmp/seedrun_ev_$S
  git -C /repo worktree remove --force $WT
}
export -f run_one
echo $SEEDS | tr ' ' '\n' | xargs -P ${SEED_JOBS:-3} -I{} bash -c 'run_one {}'
