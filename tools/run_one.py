"""dev helper: verify the instances of one registered contract key (substring match) and print the obligations that are
not discharged.  usage: PYTHONPATH=/verif:/repo python3-vt tools/run_one.py '<substring of registry key>' [timeout_ms]"""
import sys, time, collections
sys.path.insert(0, '/verif')
from pyvc.cli import load_contracts
from pyvc.verify import instances, verify_instance
reg = load_contracts()
pat = sys.argv[1]
tmo = int(sys.argv[2]) if len(sys.argv) > 2 else 20000
for k, c in reg.items():
    if pat not in k:
        continue
    for label, inst in instances(c):
        if len(sys.argv) > 3 and sys.argv[3] not in label:
            continue
        t0 = time.time()
        r = verify_instance(k, label, timeout_ms=tmo, seed=0)
        obs = r.get('obligations', [])
        cnt = collections.Counter(o['result'] for o in obs)
        print(f'{k}[{label}] {dict(cnt)} {time.time()-t0:.1f}s', r.get('error', ''))
        if r.get('trace'):
            print(r['trace'])
        for o in sorted(obs, key=lambda o: -o.get('time', 0))[:6]:
            print('    slow', round(o.get('time', 0), 1), o.get('backend'), o['name'].split('::')[-1][:110])
        seen = set()
        for o in obs:
            if o['result'] != 'unsat' and not (o.get('kind') == 'cover' and o['result'] == 'sat'):
                nm = o['name'].split('@path')[0]
                if nm in seen:
                    continue
                seen.add(nm)
                print('   ', o['result'], o.get('role'), o['name'][:200], o.get('backend'))
