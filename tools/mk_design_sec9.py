#!/usr/bin/env python3
"""splice docs/sec9.md (with SEEDTABLE / COSTTABLE filled in) into DESIGN.md before Appendix A"""
import glob
import json
import os
import subprocess
import sys

V = os.path.dirname(os.path.dirname(os.path.abspath(__file__)))
sec = open(os.path.join(V, 'docs', 'sec9.md')).read()
seedlog = sys.argv[1]
tbl = subprocess.run([sys.executable, os.path.join(V, 'tools', 'mk_results.py'), seedlog], capture_output=True, text=True).stdout
cost = ['| id | level | obligations (all discharged) | functions under contract | bounded stand-ins | known findings printed | solver s | wall s |',
        '|---|---|---|---|---|---|---|---|']
for f in sorted(glob.glob(os.path.join(V, 'evidence', 'C*.json'))):
    d = json.load(open(f))
    c = d['coverage']
    nfun = len([k for k in c['functions_under_contract'] if '::' in k])
    cost.append(f"| {d['property_id']} | {d['level']} | {c['obligations']} | {nfun} | {len(c.get('bounded_standins', []))} | "
                f"{len(c.get('known_findings_printed', []))} | {c.get('solver_seconds')} | {d.get('wall_s')} |")
sec = sec.replace('SEEDTABLE', tbl.strip()).replace('COSTTABLE', '\n'.join(cost))
D = os.path.join(V, 'DESIGN.md')
s = open(D).read()
marker = '## 9. Implementation status'
if marker in s:
    i = s.index(marker)
    j = s.index('## Appendix A')
    s = s[:i] + sec.rstrip() + '\n\n---------------------------------------------------------------------------------\n\n' + s[j:]
else:
    j = s.index('## Appendix A')
    s = s[:j] + sec.rstrip() + '\n\n---------------------------------------------------------------------------------\n\n' + s[j:]
open(D, 'w').write(s)
print('DESIGN.md section 9 written')
