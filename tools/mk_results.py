#!/usr/bin/env python3
"""usage: mk_results.py <run_seeds log>  -- writes seeded/RESULTS.md and prints the summary table for DESIGN.md 9.6"""
import json
import os
import re
import sys

V = os.path.dirname(os.path.dirname(os.path.abspath(__file__)))
rows = {}
for line in open(sys.argv[1]):
    m = re.match(r'^(C\d\d-\d): (?:exit (\d))? ?violations=(\d+) \(no-failing-input=(\d+)\) first=\[(.*?)\] ?(.*)$', line.strip())
    if m:
        rows[m.group(1)] = dict(exit=m.group(2), viol=int(m.group(3)), nfi=int(m.group(4)), first=m.group(5), rest=m.group(6))
out = ['# Seeded property-breaking changes: what the checks report',
       '',
       'Each change was produced by an independent sub-agent from the property text alone, confirmed by hand (applies to the',
       'current tree, all 108 tests still pass with it, its demo fails with it and passes without) and is stored as',
       '`seeded/<id>-<n>/{patch.diff,demo.py,meta.json}`.  `tools/run_seeds.sh` applies it to a scratch worktree and runs',
       '`./check <id>` (quick tier) with `PYVC_REPO` pointing there.  "replayed input" = at least one reported violation carries',
       'a failing input replayed on the real code; "named obligation only" = every reported violation ends with',
       '`no-failing-input-found` (the replay file names the failed obligation and carries the solver output).',
       '',
       '| seed | what the change does | exit | violations | evidence | first failing obligation |',
       '|---|---|---|---|---|---|']
table = []
caught = 0
for d in sorted(os.listdir(os.path.join(V, 'seeded'))):
    mp = os.path.join(V, 'seeded', d, 'meta.json')
    if not os.path.exists(mp):
        continue
    meta = json.load(open(mp))
    r = rows.get(d)
    summ = meta.get('summary', '').replace('|', '/').replace('\n', ' ')
    summ = summ if len(summ) < 220 else summ[:217] + '...'
    if r is None:
        out.append(f'| {d} | {summ} | (not run) | | | |')
        continue
    ev = 'replayed input' if r['viol'] > r['nfi'] else ('named obligation only' if r['viol'] else '-')
    if r['exit'] == '1':
        caught += 1
    out.append(f"| {d} | {summ} | {r['exit']} | {r['viol']} | {ev} | `{r['first'][:110]}` |")
    table.append((d, r['exit'], ev, r['first'][:90]))
out += ['', f'Caught (exit 1 with a VIOLATION line): {caught} of {len(table)}.']
open(os.path.join(V, 'seeded', 'RESULTS.md'), 'w').write('\n'.join(out) + '\n')
print('| seed | exit | evidence | first failing obligation |\n|---|---|---|---|')
for d, e, ev, first in table:
    print(f'| {d} | {e} | {ev} | `{first}` |')
print(f'\nCaught: {caught} of {len(table)}.')
