"""Symbolic value model (DESIGN.md 3.3).

Concrete Python values are used wherever a value is known: ``int`` for ints,
``fractions.Fraction`` for floats (A-REAL: a float literal denotes exactly its binary64
value, all arithmetic is exact real arithmetic), ``bool``, ``None``, ``str``, tuples, and
live objects of the imported repository (Unit members, classes, functions, modules).
Symbolic values wrap z3 terms.
"""
from fractions import Fraction
import itertools
import z3

_oid = itertools.count(1)


class EngineError(Exception):
    """The function is outside the modelled subset, or the engine is confused.
    Never reported as a violation (exit 3)."""


class SNum:
    __slots__ = ('t',)

    def __init__(self, t):
        self.t = t

    def is_int(self):
        return self.t.sort().kind() == z3.Z3_INT_SORT

    def __repr__(self):
        return f'SNum({self.t})'


class SBool:
    __slots__ = ('t',)

    def __init__(self, t):
        self.t = t

    def __repr__(self):
        return f'SBool({self.t})'


class SBV:
    """8-bit flag word (TrajFlag arithmetic uses | and &)."""
    __slots__ = ('t',)
    W = 8

    def __init__(self, t):
        self.t = t

    def __repr__(self):
        return f'SBV({self.t})'


class SRec:
    """Instance of a NamedTuple class of the repository (immutable)."""
    __slots__ = ('cls', 'vals')

    def __init__(self, cls, vals):
        self.cls = cls
        self.vals = dict(vals)

    def __repr__(self):
        return f'{self.cls.__name__}({", ".join(f"{k}={v!r}" for k, v in self.vals.items())})'


class SObj:
    """Mutable object with Python identity (``oid``)."""

    def __init__(self, cls, fields=None, frozen=False, label=None):
        self.cls = cls
        self.fields = dict(fields or {})
        self.oid = next(_oid)
        self.frozen = frozen
        self.label = label

    def __repr__(self):
        return f'<{self.cls.__name__}#{self.oid} {self.fields}>'


class SList:
    """List / tuple-of-unknown-length value.  Either ``items`` (a Python list of values:
    concrete length) or ``elem`` (callable index-term -> value) + ``length``."""

    def __init__(self, items=None, elem=None, length=None, label=None, is_tuple=False):
        self.items = items
        self.elem = elem
        self.length = length
        self.oid = next(_oid)
        self.label = label
        self.is_tuple = is_tuple
        self.frozen = False

    @property
    def concrete(self):
        return self.items is not None

    def __repr__(self):
        if self.concrete:
            return f'SList#{self.oid}{self.items!r}'
        return f'SList#{self.oid}<sym len={self.length}>'


class SFunc:
    """Closure: a FunctionDef/Lambda node with its lexical frame id."""

    def __init__(self, node, fid, finfo, name='<lambda>'):
        self.node = node
        self.fid = fid
        self.finfo = finfo  # FuncInfo of the enclosing function (globals, defclass)
        self.name = name

    def __repr__(self):
        return f'<closure {self.name}>'


class SBound:
    def __init__(self, func, selfv):
        self.func = func
        self.selfv = selfv

    def __repr__(self):
        return f'<bound {self.func} of {self.selfv!r}>'


class SOpaque:
    """Opaque value (formatted strings etc.): may be passed around, never inspected."""

    def __init__(self, tag):
        self.tag = tag

    def __repr__(self):
        return f'<opaque {self.tag}>'


class SOpaqueStr:
    """A symbolic input string that may only be used through ``.strip().lower()``;
    that normal form is the concrete string ``nf`` (C18 normal-form lemma)."""

    def __init__(self, nf, stage=0):
        self.nf = nf
        self.stage = stage


class Raised:
    def __init__(self, exc):
        self.exc = exc


class Undefined:
    """A local that is only assigned inside a cut loop; any use is an EngineError."""

    def __init__(self, name):
        self.name = name


# ---------------------------------------------------------------------------------
# numbers

def is_concrete_num(v):
    return isinstance(v, (int, Fraction)) and not isinstance(v, SNum)


def is_num(v):
    return isinstance(v, (int, Fraction, SNum, float))


def is_sym(v):
    return isinstance(v, (SNum, SBool, SBV))


def lift_float(v):
    if isinstance(v, float):
        if v != v or v in (float('inf'), float('-inf')):
            return SOpaque(f'float:{v}')
        return Fraction(v)
    return v


def zval(v):
    """number -> z3 arithmetic term"""
    if isinstance(v, SNum):
        return v.t
    if isinstance(v, SBool):
        return z3.If(v.t, z3.IntVal(1), z3.IntVal(0))
    if isinstance(v, bool):
        return z3.IntVal(int(v))
    if isinstance(v, int):
        return z3.IntVal(int(v))
    if isinstance(v, Fraction):
        return z3.RealVal(f'{v.numerator}/{v.denominator}')
    if isinstance(v, float):
        return zval(Fraction(v))
    raise EngineError(f'not a number: {v!r}')


def zreal(v):
    t = zval(v)
    if t.sort().kind() == z3.Z3_INT_SORT:
        return z3.ToReal(t)
    return t


def zbool(v):
    if isinstance(v, SBool):
        return v.t
    if isinstance(v, bool):
        return z3.BoolVal(v)
    raise EngineError(f'not a bool: {v!r}')


def mk_num(t):
    """z3 arithmetic term -> value (concrete if it is a numeral)."""
    if z3.is_int_value(t):
        return t.as_long()
    if z3.is_rational_value(t):
        return Fraction(t.numerator_as_long(), t.denominator_as_long())
    return SNum(t)


def mk_bool(t):
    if z3.is_true(t):
        return True
    if z3.is_false(t):
        return False
    return SBool(t)


def _pair(a, b):
    ta, tb = zval(a), zval(b)
    ka, kb = ta.sort().kind(), tb.sort().kind()
    if ka != kb:
        if ka == z3.Z3_INT_SORT:
            ta = z3.ToReal(ta)
        else:
            tb = z3.ToReal(tb)
    return ta, tb


def num_is_int(v):
    if isinstance(v, SNum):
        return v.is_int()
    if isinstance(v, SBool):
        return True
    return isinstance(v, int)


def truth(v):
    """Python truthiness -> bool or SBool (objects with __bool__/__len__ are handled by
    the interpreter before calling this)."""
    if isinstance(v, bool) or v is None:
        return bool(v)
    if isinstance(v, SBool):
        return v
    if isinstance(v, SNum):
        return mk_bool(v.t != 0)
    if isinstance(v, SBV):
        return mk_bool(v.t != 0)
    if isinstance(v, (int, Fraction, float)):
        return v != 0
    if isinstance(v, (str, tuple, list, dict)):
        return len(v) > 0
    if isinstance(v, SList):
        if v.concrete:
            return len(v.items) > 0
        return truth(v.length)
    if isinstance(v, SRec):
        return len(v.vals) > 0
    if isinstance(v, (SObj, SFunc, SBound)):
        return True
    if isinstance(v, SOpaqueStr):
        raise EngineError('truthiness of raw input string')
    if isinstance(v, SOpaque):
        raise EngineError(f'truthiness of opaque value {v.tag}')
    if isinstance(v, Undefined):
        raise EngineError(f'use of possibly-undefined local {v.name}')
    return bool(v)


def b_not(v):
    if isinstance(v, bool):
        return not v
    return mk_bool(z3.Not(v.t))


def b_and(*vs):
    ts = []
    for v in vs:
        if isinstance(v, bool):
            if not v:
                return False
            continue
        ts.append(zbool(v))
    if not ts:
        return True
    return mk_bool(z3.And(*ts) if len(ts) > 1 else ts[0])


def b_or(*vs):
    ts = []
    for v in vs:
        if isinstance(v, bool):
            if v:
                return True
            continue
        ts.append(zbool(v))
    if not ts:
        return False
    return mk_bool(z3.Or(*ts) if len(ts) > 1 else ts[0])


def b_implies(a, b):
    return b_or(b_not(a), b)


def same_value(a, b):
    """Structural identity of two values (used by the loop frame check)."""
    if a is b:
        return True
    if type(a) is not type(b):
        if is_num(a) and is_num(b) and not is_sym(a) and not is_sym(b):
            return a == b
        return False
    if isinstance(a, (SNum, SBool, SBV)):
        return a.t.eq(b.t)
    if isinstance(a, SRec):
        return a.cls is b.cls and all(same_value(a.vals[k], b.vals[k]) for k in a.vals)
    if isinstance(a, (SObj, SList)):
        return a.oid == b.oid
    if isinstance(a, (tuple, list)):
        return len(a) == len(b) and all(same_value(x, y) for x, y in zip(a, b))
    if isinstance(a, dict):
        return a.keys() == b.keys() and all(same_value(a[k], b[k]) for k in a)
    try:
        return a == b
    except Exception:  # noqa
        return False
