"""Loops cut at contract-supplied invariants (unbounded: all iterations)."""
import ast

import z3

from . import mathmodel as mm
from .values import (SNum, SBool, SBV, SRec, SObj, SList, SFunc, SBound, SOpaque, Raised, Undefined, EngineError,
                     truth, b_not, b_and, mk_num, mk_bool, zval, zbool, is_sym, is_num, same_value, num_is_int)
from fractions import Fraction


# ---------------------------------------------------------------------------------
# syntactic write set of a loop body

def write_set(ip, body_nodes, st, view_names=()):
    """names assigned, (object, field) stores, lists mutated - found syntactically in the
    loop body and (transitively) in the bodies of repository functions called through a
    local name's attribute (obj.method(...))."""
    names, attrs, lists = set(), set(), set()
    seen_funcs = set()

    def scan_callee(fn_node, selfname_value):
        # stores to self.<field> inside a method called on object selfname_value
        if id(fn_node) in seen_funcs:
            return
        seen_funcs.add(id(fn_node))
        for n in ast.walk(fn_node):
            if isinstance(n, (ast.Assign, ast.AugAssign, ast.AnnAssign)):
                tg = n.targets if isinstance(n, ast.Assign) else [n.target]
                for t in tg:
                    if isinstance(t, ast.Attribute) and isinstance(t.value, ast.Name) and t.value.id == 'self':
                        attrs.add((selfname_value.oid, t.attr))
            if isinstance(n, ast.Call) and isinstance(n.func, ast.Attribute) and isinstance(n.func.value, ast.Name) \
                    and n.func.value.id == 'self':
                m = _method_node(ip, selfname_value, n.func.attr)
                if m is not None:
                    scan_callee(m, selfname_value)

    def walk(n):
        for c in ast.walk(n):
            if isinstance(c, (ast.Assign, ast.AugAssign, ast.AnnAssign, ast.For, ast.NamedExpr)):
                if isinstance(c, ast.Assign):
                    tg = c.targets
                elif isinstance(c, ast.NamedExpr):
                    tg = [c.target]
                else:
                    tg = [c.target]
                for t in tg:
                    for e in ast.walk(t):
                        if isinstance(e, ast.Name) and isinstance(e.ctx, ast.Store):
                            names.add(e.id)
                    if isinstance(t, ast.Attribute):
                        o = _static_obj(ip, t.value, st)
                        if o is not None:
                            attrs.add((o.oid, t.attr))
                        elif isinstance(t.value, ast.Name) and t.value.id in view_names:
                            pass      # store through an element view of the iterated list (handled by the caller)
                        else:
                            attrs.add((None, ast.unparse(t)))
                    if isinstance(t, ast.Subscript):
                        o = _static_obj(ip, t.value, st)
                        if isinstance(o, SList):
                            lists.add(o.oid)
            if isinstance(c, ast.Call) and isinstance(c.func, ast.Attribute):
                o = _static_obj(ip, c.func.value, st)
                if isinstance(o, SList) and c.func.attr in ('append', 'sort', 'extend', 'insert', 'pop', 'remove'):
                    lists.add(o.oid)
                elif isinstance(o, SObj):
                    m = _method_node(ip, o, c.func.attr)
                    if m is not None:
                        scan_callee(m, o)
            if isinstance(c, ast.ExceptHandler) and c.name:
                names.add(c.name)
    for b in body_nodes:
        walk(b)
    return names, attrs, lists


def _static_obj(ip, expr, st):
    """object a simple expression (Name / Name.attr chain) denotes in state st, without effects"""
    try:
        if isinstance(expr, ast.Name):
            f = st.frame
            while f is not None:
                if expr.id in f.vars:
                    v = f.vars[expr.id]
                    return v if isinstance(v, (SObj, SList)) else None
                f = st.frames[f.parent] if f.parent is not None else None
            return None
        if isinstance(expr, ast.Attribute):
            o = _static_obj(ip, expr.value, st)
            if isinstance(o, SObj) and expr.attr in o.fields:
                v = o.fields[expr.attr]
                return v if isinstance(v, (SObj, SList)) else None
    except Exception:  # noqa
        return None
    return None


def _method_node(ip, obj, name):
    from .interp import class_lookup
    import types
    try:
        f, k = class_lookup(obj.cls, name)
    except AttributeError:
        return None
    if isinstance(f, types.FunctionType):
        info = ip.index.info_for_pyfunc(f)
        return info.node if info else None
    return None


# ---------------------------------------------------------------------------------
# fresh values of the same shape

def fresh_like(ip, v, name, shape=None):
    ctx = ip.ctx
    if shape is not None:
        return shape.fresh(ctx, ctx.fresh_name(name))
    if isinstance(v, bool) or isinstance(v, SBool):
        return SBool(ctx.fresh_bool(name))
    if isinstance(v, int) or (isinstance(v, SNum) and v.is_int()):
        return SNum(ctx.fresh_int(name))
    if isinstance(v, (Fraction, float, SNum)):
        return SNum(ctx.fresh_real(name))
    if isinstance(v, SBV):
        return SBV(z3.BitVec(ctx.fresh_name(name), SBV.W))
    if isinstance(v, SRec):
        return SRec(v.cls, {k: fresh_like(ip, x, f'{name}.{k}') for k, x in v.vals.items()})
    if isinstance(v, tuple):
        return tuple(fresh_like(ip, x, f'{name}.{i}') for i, x in enumerate(v))
    if v is None:
        return None
    if isinstance(v, (SObj, SList, SFunc, SBound, str)) or callable(v):
        return v
    from .values import Undefined as _Undef
    if isinstance(v, _Undef) and getattr(v, 'leftover', None):
        return v      # a leftover field of a long-used object stays unknown (reading it is still refused)
    raise EngineError(f'cannot havoc value of shape {v!r} ({name}); give a type in the loop contract')


def havoc_list(ip, lst, name, shape=None):
    """replace contents and length of a list object by fresh ones (in place)"""
    ctx = ip.ctx
    if shape is None:
        sample = None
        if lst.concrete:
            if lst.items:
                sample = lst.items[0]
        else:
            sample = lst.elem(SNum(z3.Int(ctx.fresh_name('probe'))))
        if sample is None:
            raise EngineError(f'list {name} is empty at the loop head: give its element type in the loop contract')
        from .contract import shape_of_value
        shape = shape_of_value(sample)
    arr_name = ctx.fresh_name(name)
    lst.items = None
    base = shape.array_elem(ctx, arr_name)
    oid = lst.oid

    def elem(j, base=base, oid=oid):
        v = base(j)
        if isinstance(v, SObj):
            v.fields['__owner'] = oid
        return v
    if hasattr(base, 'base_array'):
        elem.base_array = base.base_array
    lst.elem = elem
    n = ctx.fresh_int(name + '.len')
    ctx.axiom(n >= 0)
    lst.length = SNum(n)


def snapshot(st):
    """all locations reachable from the frames: for the loop frame check"""
    locs = {}
    seen = set()

    def walk(v):
        if isinstance(v, SObj):
            if v.oid in seen:
                return
            seen.add(v.oid)
            for k, x in v.fields.items():
                locs[('field', v.oid, k)] = x
                walk(x)
        elif isinstance(v, SList):
            if v.oid in seen:
                return
            seen.add(v.oid)
            locs[('list', v.oid)] = (v.items if v.items is None else tuple(v.items), v.elem, v.length)
            for x in (v.items or []):
                walk(x)
        elif isinstance(v, SRec):
            for x in v.vals.values():
                walk(x)
        elif isinstance(v, (tuple, list)):
            for x in v:
                walk(x)
        elif isinstance(v, dict):
            for x in v.values():
                walk(x)
        elif isinstance(v, SBound):
            walk(v.selfv)
    for fid, f in st.frames.items():
        for k, v in f.vars.items():
            locs[('var', fid, k)] = v
            walk(v)
    for d, tag in ((st.gl, 'global'), (st.cls_over, 'clsattr'), (st.lifted, 'lifted')):
        for k, v in d.items():
            locs[(tag, k)] = v
            walk(v)
    return locs


def _same_loc(a, b):
    if isinstance(a, tuple) and len(a) == 3 and callable(a[1]) or isinstance(b, tuple) and len(b) == 3 and \
            callable(b[1]):
        # list snapshot
        ia, ea, la = a
        ib, eb, lb = b
        if ia is not None and ib is not None:
            return len(ia) == len(ib) and all(same_value(x, y) for x, y in zip(ia, ib))
        return ea is eb and same_value(la, lb)
    return same_value(a, b)


def frame_check(ip, head_locs, st_end, allowed, node, new_oids_from):
    end = snapshot(st_end)
    for loc, v0 in head_locs.items():
        if loc in allowed:
            continue
        if loc[0] == 'var' and loc[1] not in st_end.frames:
            continue
        if loc not in end:
            continue
        v1 = end[loc]
        if loc[0] == 'list':
            same = _same_loc(v0, v1)
        else:
            same = same_value(v0, v1)
        if not same:
            raise EngineError(f'loop at line {node.lineno} modifies {loc} which is not in its havoc set '
                              f'(engine frame check)')


# ---------------------------------------------------------------------------------

def _prepare(ip, node, st, lc, extra_names=()):
    """entry obligations, havoc, assume invariants.  Returns (head_locs, allowed, V0)"""
    ctx = ip.ctx
    fi = st.frame.finfo
    tag = f'{fi.qualname}#loop@L{node.lineno}'
    names, attrs, lists = write_set(ip, node.body, st)
    names |= set(extra_names)
    return tag, names, attrs, lists


def _z3_consts(t, acc):
    seen = set()
    stack = [t]
    while stack:
        x = stack.pop()
        if x.get_id() in seen:
            continue
        seen.add(x.get_id())
        if z3.is_const(x) and x.decl().kind() == z3.Z3_OP_UNINTERPRETED:
            acc.add(x.decl().name())
        stack.extend(x.children())


def _value_terms(v, acc):
    if isinstance(v, (SNum, SBool, SBV)):
        acc.append(v.t)
    elif isinstance(v, SRec):
        for x in v.vals.values():
            _value_terms(x, acc)
    elif isinstance(v, SObj):
        for k, x in v.fields.items():
            if not k.startswith('__'):
                _value_terms(x, acc)
    elif isinstance(v, (tuple, list)):
        for x in v:
            _value_terms(x, acc)
    elif isinstance(v, SList) and not v.concrete:
        _value_terms(v.length, acc)
        _value_terms(v.elem(SNum(z3.Int('dep!probe'))), acc)
    elif isinstance(v, SList):
        for x in v.items:
            _value_terms(x, acc)


def _symbols_of(ip, exprs, st):
    """names of the z3 constants occurring in the values of the given expressions in state st"""
    names = set()
    for e in exprs:
        v = ip.spec_value(e, st)
        ts = []
        _value_terms(v, ts)
        for t in ts:
            _z3_consts(t, names)
    return names


def _depends_on(ip, outs, st, source_syms):
    names = _symbols_of(ip, outs, st)
    # the path condition under which the outputs were computed counts too
    return names & source_syms


def cut_loop(ip, node, st, lc):
    """while-loop with invariant"""
    yield from _cut(ip, node, st, lc, None, None)


def cut_for(ip, node, st, lc, seq, n):
    yield from _cut(ip, node, st, lc, seq, n)


def _cut(ip, node, st, lc, seq, n):
    ctx = ip.ctx
    fi = st.frame.finfo
    tag = f'{fi.qualname}#loop@L{node.lineno}'
    is_for = seq is not None
    view_names = set()
    view_owners = set()
    if is_for:
        for e in ast.walk(node.target):
            if isinstance(e, ast.Name):
                view_names.add(e.id)
        probe = ip.seq_elem(seq, SNum(z3.Int(ctx.fresh_name('probe'))))
        for v in (probe if isinstance(probe, tuple) else (probe,)):
            if isinstance(v, SObj) and '__owner' in v.fields:
                view_owners.add(v.fields['__owner'])
    names, attrs, lists = write_set(ip, node.body, st, view_names)
    stores_through_views = any(
        isinstance(t, ast.Attribute) and isinstance(t.value, ast.Name) and t.value.id in view_names
        for n in node.body for c in ast.walk(n) if isinstance(c, (ast.Assign, ast.AugAssign, ast.AnnAssign))
        for t in (c.targets if isinstance(c, ast.Assign) else [c.target]))
    keep_len = set()
    if stores_through_views:
        from .interp import find_by_oid as _fbo
        for oid in view_owners:
            if oid not in lists:
                lists.add(oid)
                keep_len.add(oid)
    frame = st.frame
    idx_name = lc.index or '_i'
    if is_for:
        for e in ast.walk(node.target):
            if isinstance(e, ast.Name):
                names.add(e.id)
        frame.vars[idx_name] = 0
        frame.vars['_n'] = n
        names.add(idx_name)
    for label, g in (lc.ghost_init or {}).items():
        frame.vars[label] = ip.spec_value(g, st)
        if label in (lc.ghost_update or {}):
            names.add(label)

    # 1. entry clauses and invariants on entry
    for cl in lc.entry:
        f = ip.spec_bool(cl.src, st)
        ctx.oblige(st, f'{tag}#entry:{cl.label}', 'entry', cl.role, f, node.lineno, note=cl.src)
    for label, src in lc.invariants:
        f = ip.spec_bool(src, st)
        ctx.oblige(st, f'{tag}#inv-entry:{label}', 'inv-entry', lc.role, f, node.lineno, note=src)

    # 2. havoc
    allowed = set()
    for nm in sorted(names):
        g = frame
        holder = None
        while g is not None:
            if nm in g.vars and nm not in g.globals_decl:
                holder = g
                break
            g = st.frames[g.parent] if g.parent is not None else None
        if holder is None or holder is not frame:
            # not defined at the loop head (or belongs to an enclosing function): only assigned inside
            if holder is None:
                frame.vars[nm] = Undefined(nm)
                allowed.add(('var', frame.fid, nm))
                continue
        v = holder.vars[nm]
        allowed.add(('var', holder.fid, nm))
        if isinstance(v, Undefined):
            continue
        if isinstance(v, SList) and v.oid in lists:
            continue
        if nm == idx_name and is_for:
            holder.vars[nm] = SNum(ctx.fresh_int(idx_name))
            continue
        holder.vars[nm] = fresh_like(ip, v, nm, lc.types.get(nm))
    for oid, fld in sorted(attrs, key=lambda x: (str(x[0]), x[1])):
        if oid is None:
            raise EngineError(f'loop at line {node.lineno}: store to {fld} on an object that is not a simple local')
        from .interp import find_by_oid
        o = find_by_oid(st, oid)
        if o is None:
            continue
        allowed.add(('field', oid, fld))
        if fld in o.fields:
            v = o.fields[fld]
            if isinstance(v, SList) and v.oid in lists:
                continue
            o.fields[fld] = fresh_like(ip, v, f'{o.cls.__name__}.{fld}', lc.types.get(fld))
    for oid in sorted(lists):
        from .interp import find_by_oid
        l = find_by_oid(st, oid)
        if l is None:
            continue
        allowed.add(('list', oid))
        nm = l.label or f'list{oid}'
        # element type from the contract, keyed by variable name if the list is bound to one
        shp = None
        for k, v in frame.vars.items():
            if isinstance(v, SList) and v.oid == oid and k in lc.types:
                shp = lc.types[k]
                nm = k
        from .contract import ListOf as _ListOf
        old_len = l.length if not l.concrete else len(l.items)
        havoc_list(ip, l, nm, shp.elem if isinstance(shp, _ListOf) else shp)
        if oid in keep_len:
            l.length = old_len
    for src in lc.havoc:
        raise EngineError('explicit havoc entries not implemented')

    # 3. assume invariants (+ implicit index bounds)
    if is_for:
        i = frame.vars[idx_name]
        st.assume(zbool(b_and(mm.compare('>=', i, 0), mm.compare('<=', i, n))))
    for label, src in lc.invariants:
        st.assume(ip.spec_bool(src, st))
    head_locs = snapshot(st)
    head_state = st.clone()
    st.loop_heads = list(getattr(st, 'loop_heads', [])) + [head_state]
    head_syms = {}
    dep_sigs = {}
    if lc.independent:
        for label, outs, srcs in lc.independent:
            head_syms[label] = _symbols_of(ip, srcs, st)
    v0 = ip.spec_value(lc.variant, st) if lc.variant else None
    base_pc = len(st.pc)

    # 4. guard
    def guard(s):
        if is_for:
            yield mm.compare('<', s.frame.vars[idx_name], n), s
        else:
            for c, s1 in ip.eval(node.test, s):
                if isinstance(c, Raised):
                    yield c, s1
                else:
                    yield from ip.truthy(c, s1)

    for g, s in guard(st):
        if isinstance(g, Raised):
            yield s, ('raise', g.exc)
            continue
        for side, s1 in ip.fork(s, g):
            if not side:
                # exit
                if node.orelse:
                    yield from ip.exec_block(node.orelse, s1)
                else:
                    yield s1, None
                continue
            # cover: the loop body is reachable
            if is_for:
                seq1 = ip.refind(seq, s1)
                item = ip.seq_elem(seq1, s1.frame.vars[idx_name])
                outs = list(ip.assign_target_g(node.target, item, s1))
                if len(outs) != 1 or isinstance(outs[0][0], Raised):
                    raise EngineError('for-target assignment forks')
            if v0 is not None and lc.variant_lb is not None:
                ctx.oblige(s1, f'{tag}#variant-bounded', 'variant', lc.role,
                           zbool(mm.compare('>=', v0, lc.variant_lb)), node.lineno, note=lc.variant)
            for s2, flow in ip.exec_block(node.body, s1):
                if flow is None or flow[0] == 'continue':
                    if is_for:
                        f2 = s2.frame
                        f2.vars[idx_name] = mm.arith(ctx, '+', f2.vars[idx_name], 1)
                    for label, upd in (lc.ghost_update or {}).items():
                        s2.frame.vars[label] = ip.spec_value(upd, s2)
                    for cl in lc.hypotheses_end:
                        s2.assume(ip.spec_bool(cl.src, s2))
                        ctx.trusted[f'hypothesis on the dynamics (assumed at every step): {cl.label}: {cl.src}'] += 0
                    for label, src in lc.lemmas_end:
                        ctx.reveal_depth += 1
                        try:
                            f = ip.spec_bool(src, s2)
                        finally:
                            ctx.reveal_depth -= 1
                        o = ctx.oblige(s2, f'{tag}#lemma:{label}', 'lemma', lc.role, f, node.lineno, note=src)
                        if o is not None:
                            o.qf_only = True
                        s2.assume(f)
                        s2.assume(ip.spec_bool(src, s2))
                    for cl in lc.step:
                        f = ip.spec_bool(cl.src, s2)
                        o = ctx.oblige(s2, f'{tag}#step:{cl.label}', 'step', cl.role, f, node.lineno, note=cl.src)
                        if o is not None:
                            o.clause = cl
                    for label, outs, srcs in lc.independent:
                        bad = _depends_on(ip, outs, s2, head_syms[label])
                        # paths that differ only in conditions on the sources must compute the same outputs
                        conds = []
                        for cnd in s2.pc[base_pc:]:
                            nm = set()
                            _z3_consts(cnd, nm)
                            if not (nm & head_syms[label]):
                                conds.append(cnd.sexpr())
                        key = (label, tuple(sorted(conds)))
                        ts = []
                        for e in outs:
                            _value_terms(ip.spec_value(e, s2), ts)
                        sig = tuple(t.sexpr() for t in ts)
                        seen_sigs = dep_sigs.setdefault(key, sig)
                        if seen_sigs != sig:
                            bad = set(bad) | {'<outputs differ between paths that differ only in the sources>'}
                        ctx.oblige(s2, f'{tag}#dep:{label}', 'dep', 'clause',
                                   z3.BoolVal(not bad), node.lineno,
                                   note=f'{outs} after the step do not depend on {srcs}' +
                                        (f'  [offending symbols: {sorted(bad)[:6]}]' if bad else ''))
                    for label, src in lc.invariants:
                        f = ip.spec_bool(src, s2)
                        ctx.oblige(s2, f'{tag}#inv-preserve:{label}', 'inv-preserve', lc.role, f, node.lineno,
                                   note=src)
                    if v0 is not None:
                        v1 = ip.spec_value(lc.variant, s2)
                        dec = mm.compare('<=', v1, mm.arith(ctx, '-', v0, lc.variant_dec)) \
                            if lc.variant_dec is not None else mm.compare('<', v1, v0)
                        if lc.variant_dec_expr:
                            d = ip.spec_value(lc.variant_dec_expr, s2)
                            dec = b_and(mm.compare('<=', v1, mm.arith(ctx, '-', v0, d)), mm.compare('>', d, 0))
                        ctx.oblige(s2, f'{tag}#variant-decreases', 'variant', lc.role,
                                   zbool(dec) if not isinstance(dec, bool) else z3.BoolVal(dec), node.lineno,
                                   note=lc.variant)
                    frame_check(ip, head_locs, s2, allowed, node, None)
                    ctx.path_count += 1
                elif flow[0] == 'break':
                    frame_check(ip, head_locs, s2, allowed, node, None)
                    yield s2, None
                else:
                    yield s2, flow
