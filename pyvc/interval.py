"""Back end I (DESIGN.md 3.6): interval branch-and-bound for obligations of the form
``forall x in Box: phi(e(x))`` where e is the closed-form expression that the symbolic executor
extracts from a loop-free real function of /repo containing pow/exp/sqrt.

Intervals are binary64 with outward rounding by math.nextafter; libm calls are widened by a few ulps
(A-LIBM: libm is accurate to < 2 ulp on these arguments).  Sound for the whole continuous box - not
sampling: every leaf is decided by enclosure or the box is reported undecided."""
import math
import time
from fractions import Fraction

import sympy
import z3

NA = math.nextafter
INF = math.inf


def _dn(x, k=1):
    for _ in range(k):
        x = NA(x, -INF)
    return x


def _up(x, k=1):
    for _ in range(k):
        x = NA(x, INF)
    return x


def _add_dn(a, b):
    s = a + b
    bb = s - a
    err = (a - (s - bb)) + (b - bb)
    return s if err >= 0 or s != s or s in (INF, -INF) else NA(s, -INF)


def _add_up(a, b):
    s = a + b
    bb = s - a
    err = (a - (s - bb)) + (b - bb)
    return s if err <= 0 or s != s or s in (INF, -INF) else NA(s, INF)


def _pow2(x):
    return x != 0 and abs(math.frexp(x)[0]) == 0.5 and 1e-300 < abs(x) < 1e300


class FI:
    __slots__ = ('lo', 'hi')

    def __init__(self, lo, hi=None):
        self.lo = lo
        self.hi = lo if hi is None else hi

    @staticmethod
    def of(v):
        if isinstance(v, FI):
            return v
        if isinstance(v, Fraction):
            f = float(v)
            if Fraction(f) == v:
                return FI(f, f)
            return FI(_dn(f), _up(f))
        if isinstance(v, int):
            f = float(v)
            return FI(f, f) if int(f) == v else FI(_dn(f), _up(f))
        return FI(float(v), float(v))

    def __repr__(self):
        return f'[{self.lo!r}, {self.hi!r}]'

    def __add__(self, o):
        o = FI.of(o)
        return FI(_add_dn(self.lo, o.lo), _add_up(self.hi, o.hi))

    __radd__ = __add__

    def __neg__(self):
        return FI(-self.hi, -self.lo)

    def __sub__(self, o):
        o = FI.of(o)
        return FI(_add_dn(self.lo, -o.hi), _add_up(self.hi, -o.lo))

    def __rsub__(self, o):
        return FI.of(o) - self

    def __mul__(self, o):
        o = FI.of(o)
        ps = (self.lo * o.lo, self.lo * o.hi, self.hi * o.lo, self.hi * o.hi)
        if (o.lo == o.hi and _pow2(o.lo)) or (self.lo == self.hi and _pow2(self.lo)):
            return FI(min(ps), max(ps))       # scaling by +-2^k is exact
        return FI(_dn(min(ps)), _up(max(ps)))

    __rmul__ = __mul__

    def inv(self):
        if self.lo <= 0.0 <= self.hi:
            raise ZeroDivisionError('interval contains 0')
        return FI(_dn(1.0 / self.hi), _up(1.0 / self.lo))

    def __truediv__(self, o):
        return self * FI.of(o).inv()

    def __rtruediv__(self, o):
        return FI.of(o) * self.inv()

    def width(self):
        return self.hi - self.lo

    def mid(self):
        return 0.5 * (self.lo + self.hi)


def f_sqrt(x):
    if x.lo < 0:
        raise ValueError('sqrt of negative interval')
    return FI(max(0.0, _dn(math.sqrt(x.lo), 2)), _up(math.sqrt(x.hi), 2))


def f_exp(x):
    return FI(max(0.0, _dn(math.exp(x.lo), 4)), _up(math.exp(x.hi), 4))


def f_log(x):
    if x.lo <= 0:
        raise ValueError('log of non-positive interval')
    return FI(_dn(math.log(x.lo), 4), _up(math.log(x.hi), 4))


def f_pow(x, e):
    """x ** e for x > 0 (real exponent), or integer e"""
    e = FI.of(e)
    if e.lo == e.hi and float(e.lo).is_integer() and abs(e.lo) <= 16:
        n = int(e.lo)
        if n == 0:
            return FI(1.0, 1.0)
        r = x
        for _ in range(abs(n) - 1):
            r = r * x
        if abs(n) % 2 == 0 and x.lo < 0 < x.hi:
            r = FI(0.0, r.hi)
        return r if n > 0 else r.inv()
    return f_exp(e * f_log(x))


def f_abs(x):
    if x.lo >= 0:
        return x
    if x.hi <= 0:
        return -x
    return FI(0.0, max(-x.lo, x.hi))


# ------------------------------------------------------------------------------------
def z3_to_sympy(t, syms, cache=None):
    """z3 real term -> sympy expression; uninterpreted math functions become the real functions"""
    if cache is None:
        cache = {}
    i = t.get_id()
    if i in cache:
        return cache[i]
    r = _z2s(t, syms, cache)
    cache[i] = r
    return r


def _z2s(t, syms, cache):
    if z3.is_int_value(t):
        return sympy.Integer(t.as_long())
    if z3.is_rational_value(t):
        return sympy.Rational(t.numerator_as_long(), t.denominator_as_long())
    k = t.decl().kind()
    ch = [z3_to_sympy(c, syms, cache) for c in t.children()]
    if k == z3.Z3_OP_ADD:
        return sympy.Add(*ch)
    if k == z3.Z3_OP_MUL:
        return sympy.Mul(*ch)
    if k == z3.Z3_OP_SUB:
        r = ch[0]
        for c in ch[1:]:
            r = r - c
        return r
    if k == z3.Z3_OP_UMINUS:
        return -ch[0]
    if k == z3.Z3_OP_DIV:
        return ch[0] / ch[1]
    if k == z3.Z3_OP_TO_REAL:
        return ch[0]
    if k == z3.Z3_OP_ITE:
        return sympy.Piecewise((ch[1], ch[0]), (ch[2], True))
    if k in (z3.Z3_OP_LE, z3.Z3_OP_LT, z3.Z3_OP_GE, z3.Z3_OP_GT):
        op = {z3.Z3_OP_LE: sympy.Le, z3.Z3_OP_LT: sympy.Lt, z3.Z3_OP_GE: sympy.Ge, z3.Z3_OP_GT: sympy.Gt}[k]
        return op(ch[0], ch[1])
    if k == z3.Z3_OP_EQ:
        return sympy.Eq(ch[0], ch[1])
    if k == z3.Z3_OP_AND:
        return sympy.And(*ch)
    if k == z3.Z3_OP_OR:
        return sympy.Or(*ch)
    if k == z3.Z3_OP_NOT:
        return sympy.Not(ch[0])
    if k == z3.Z3_OP_UNINTERPRETED:
        name = t.decl().name()
        if t.num_args() == 0:
            if name not in syms:
                syms[name] = sympy.Symbol(name, real=True)
            return syms[name]
        if name == 'sqrt':
            return sympy.sqrt(ch[0])
        if name == 'exp':
            return sympy.exp(ch[0])
        if name == 'pow':
            return sympy.Pow(ch[0], ch[1])
        if name in ('sin', 'cos', 'tan', 'atan'):
            return getattr(sympy, name)(ch[0])
        raise ValueError(f'no real semantics for function {name}')
    raise ValueError(f'unsupported z3 operator in interval back end: {t.decl()}')


def eval_fi(e, env):
    """enclosure of sympy expression e over the box env: {symbol name: FI}"""
    if e.is_Symbol:
        return env[e.name]
    if e.is_Integer:
        return FI.of(int(e))
    if e.is_Rational:
        return FI.of(Fraction(int(e.p), int(e.q)))
    if e.is_Float:
        return FI.of(float(e))
    if e.is_Add:
        r = FI(0.0, 0.0)
        for a in e.args:
            r = r + eval_fi(a, env)
        return r
    if e.is_Mul:
        r = FI(1.0, 1.0)
        for a in e.args:
            r = r * eval_fi(a, env)
        return r
    if e.is_Pow:
        b, x = e.args
        if x.is_Rational and x.q == 2 and x.p == 1:
            return f_sqrt(eval_fi(b, env))
        if x.is_Rational and x.q == 2 and x.p == -1:
            return f_sqrt(eval_fi(b, env)).inv()
        return f_pow(eval_fi(b, env), eval_fi(x, env))
    if isinstance(e, sympy.exp):
        return f_exp(eval_fi(e.args[0], env))
    if isinstance(e, sympy.log):
        return f_log(eval_fi(e.args[0], env))
    if isinstance(e, sympy.Abs):
        return f_abs(eval_fi(e.args[0], env))
    if isinstance(e, sympy.Piecewise):
        outs = []
        for val, cond in e.args:
            c = eval_cond(cond, env)
            if c is True:
                outs.append(eval_fi(val, env))
                break
            if c is None:
                outs.append(eval_fi(val, env))
        return FI(min(o.lo for o in outs), max(o.hi for o in outs))
    if e is sympy.pi:
        return FI(_dn(math.pi), _up(math.pi))
    if isinstance(e, sympy.Max):
        vs = [eval_fi(a, env) for a in e.args]
        return FI(max(v.lo for v in vs), max(v.hi for v in vs))
    raise ValueError(f'interval evaluation: unsupported node {type(e).__name__}: {e}')


def eval_cond(c, env):
    """True / False / None (undecided on this box)"""
    if c is sympy.true or c is True:
        return True
    if c is sympy.false or c is False:
        return False
    if isinstance(c, (sympy.Le, sympy.Lt, sympy.Ge, sympy.Gt)):
        d = eval_fi(c.lhs - c.rhs, env)
        if isinstance(c, sympy.Le):
            return True if d.hi <= 0 else (False if d.lo > 0 else None)
        if isinstance(c, sympy.Lt):
            return True if d.hi < 0 else (False if d.lo >= 0 else None)
        if isinstance(c, sympy.Ge):
            return True if d.lo >= 0 else (False if d.hi < 0 else None)
        return True if d.lo > 0 else (False if d.hi <= 0 else None)
    if isinstance(c, sympy.And):
        rs = [eval_cond(a, env) for a in c.args]
        return False if any(r is False for r in rs) else (True if all(r is True for r in rs) else None)
    if isinstance(c, sympy.Or):
        rs = [eval_cond(a, env) for a in c.args]
        return True if any(r is True for r in rs) else (False if all(r is False for r in rs) else None)
    if isinstance(c, sympy.Not):
        r = eval_cond(c.args[0], env)
        return None if r is None else (not r)
    if isinstance(c, sympy.Eq):
        d = eval_fi(c.lhs - c.rhs, env)
        return False if (d.lo > 0 or d.hi < 0) else (True if d.lo == d.hi == 0 else None)
    raise ValueError(f'interval condition: {c}')


def prove_on_box(pred, box, max_leaves=400000, min_width=1e-9, time_limit=600):
    """pred(env) -> True (holds on all of env) / False (fails somewhere: only trusted if env is a point) /
    None.  box: {name: (lo, hi)}.  Returns dict(result='unsat'|'sat'|'unknown', leaves, depth, witness)."""
    t0 = time.time()
    stack = [({k: FI(float(lo), float(hi)) for k, (lo, hi) in box.items()}, 0)]
    leaves = 0
    maxdepth = 0
    smallest = INF
    while stack:
        env, d = stack.pop()
        maxdepth = max(maxdepth, d)
        try:
            r = pred(env)
        except (ZeroDivisionError, ValueError):
            r = None
        if r is True:
            leaves += 1
            continue
        # try the midpoint: a point where the predicate is definitely false is a counterexample
        mid = {k: FI(v.mid()) for k, v in env.items()}
        try:
            rm = pred(mid)
        except (ZeroDivisionError, ValueError):
            rm = None
        if rm is False:
            return {'result': 'sat', 'leaves': leaves, 'depth': maxdepth, 'witness': {k: v.lo for k, v in mid.items()},
                    'seconds': round(time.time() - t0, 3)}
        # bisect the widest (relative to the original box) dimension
        k = max(env, key=lambda n: env[n].width() / max(1e-300, box[n][1] - box[n][0]))
        w = env[k].width()
        smallest = min(smallest, w)
        if w <= min_width or leaves + len(stack) > max_leaves or time.time() - t0 > time_limit:
            return {'result': 'unknown', 'leaves': leaves, 'depth': maxdepth, 'undecided_box': repr(env),
                    'seconds': round(time.time() - t0, 3)}
        m = env[k].mid()
        e1 = dict(env)
        e2 = dict(env)
        e1[k] = FI(env[k].lo, m)
        e2[k] = FI(m, env[k].hi)
        stack.append((e1, d + 1))
        stack.append((e2, d + 1))
    return {'result': 'unsat', 'leaves': leaves, 'depth': maxdepth, 'seconds': round(time.time() - t0, 3)}


# ------------------------------------------------------------------------------------
def extract(harness, arg_names, relfile='verif:contracts/specfn.py', consts=None):
    """run the engine on harness(*symbolic reals) and return (z3 term(s) of the result, merged over paths)"""
    from .repoindex import get_index
    from .state import Ctx, State
    from .interp import Interp
    from .specns import SPEC_NS
    from .values import SNum, Raised, zreal
    from .verify import contracts_by_key
    idx = get_index()
    info = idx.find(relfile, harness)
    ctx = Ctx(f'extract:{harness}')
    ns = dict(SPEC_NS)
    import contracts.specfn as sf
    import types as _t
    ns.update({k: v for k, v in vars(sf).items() if not k.startswith('_') and not isinstance(v, _t.ModuleType)
               and k not in ns})
    ip = Interp(ctx, idx, {}, ns)
    ip.modular = False
    st = State()
    st.push(info)
    consts = consts or {}
    args = [consts[n] if n in consts else SNum(z3.Real(n)) for n in arg_names]
    ctx.spec_depth += 1      # pure evaluation: no obligations
    outs = []
    for v, s in ip.call_function(info, args, {}, st, None):
        if isinstance(v, Raised):
            continue
        outs.append((v, list(s.pc)))
    ctx.spec_depth -= 1
    return outs, ctx
