"""Native deep comparison of argument object graphs before/after a call (frame clauses)."""
import fnmatch


def _fields(o):
    d = {}
    for k in getattr(type(o), '__slots__', ()) or ():
        if hasattr(o, k):
            d[k] = getattr(o, k)
    for kls in type(o).__mro__:
        for k in getattr(kls, '__slots__', ()) or ():
            if hasattr(o, k):
                d[k] = getattr(o, k)
    if hasattr(o, '__dict__'):
        d.update(vars(o))
    return d


def deep_diff(old, new, allowed, path='', seen=None, out=None):
    """list of locations (in the notation of contract modifies clauses) whose value differs"""
    if out is None:
        out = []
    if seen is None:
        seen = set()
    if id(new) in seen:
        return out
    if isinstance(new, (int, float, str, bool, type(None))):
        if old != new and not (old != old and new != new):
            if not any(fnmatch.fnmatchcase(path, a.replace('normal:', '')) for a in allowed):
                out.append(path)
        return out
    seen.add(id(new))
    if isinstance(new, dict) and isinstance(old, dict):
        for k in new:
            p = f'{path}[{k!r}]' if path else str(k)
            if k not in old:
                out.append(p)
            else:
                deep_diff(old[k], new[k], allowed, p, seen, out)
        return out
    if isinstance(new, (list, tuple)) and isinstance(old, (list, tuple)):
        if len(old) != len(new):
            if not any(fnmatch.fnmatchcase(path + '[*]', a) or fnmatch.fnmatchcase(path, a) for a in allowed):
                out.append(path + '.len')
            return out
        for i, (a, b) in enumerate(zip(old, new)):
            deep_diff(a, b, allowed, f'{path}[{i}]', seen, out)
        return out
    fo, fn = _fields(old), _fields(new)
    if fn or fo:
        for k in fn:
            p = f'{path}.{k}' if path else k
            if k not in fo:
                if not any(fnmatch.fnmatchcase(p, a.replace('normal:', '')) for a in allowed):
                    out.append(p)
            else:
                deep_diff(fo[k], fn[k], allowed, p, seen, out)
    return out
