"""Models of external functions: uninterpreted symbols + instantiated axioms (A-LIBM),
exact definitions for abs/min/max, and the arithmetic of symbolic numbers."""
import math
from fractions import Fraction

import z3

from .values import (SNum, SBool, SBV, EngineError, mk_num, mk_bool, zval, zreal, zbool, is_sym, num_is_int,
                     _pair, is_concrete_num, lift_float, SOpaque)

R = z3.RealSort()
PI = Fraction(math.pi)


def _c(v):
    return not is_sym(v)


class PyZeroDivision(Exception):
    pass


class PyValueError(Exception):
    pass


def arith(ctx, op, a, b):
    """Binary arithmetic on numbers.  op in + - * / // % **"""
    a, b = lift_float(a), lift_float(b)
    if isinstance(a, SBV) or isinstance(b, SBV):
        raise EngineError('arithmetic on flag words')
    if _c(a) and _c(b):
        if isinstance(a, bool):
            a = int(a)
        if isinstance(b, bool):
            b = int(b)
        if op == '+':
            return a + b
        if op == '-':
            return a - b
        if op == '*':
            return a * b
        if op == '/':
            if b == 0:
                raise PyZeroDivision()
            return Fraction(a) / Fraction(b)
        if op == '//':
            if b == 0:
                raise PyZeroDivision()
            r = a // b
            return r if isinstance(a, int) and isinstance(b, int) else Fraction(r)
        if op == '%':
            if b == 0:
                raise PyZeroDivision()
            return a % b
        if op == '**':
            return power(ctx, a, b)
        raise EngineError(f'arith op {op}')
    if op == '**':
        return power(ctx, a, b)
    if op == '/':
        q = zreal(a) / zreal(b)
        if not _c(b) and ctx is not None and hasattr(ctx, 'axiom') and getattr(ctx, 'div_bounds', False):
            # instantiated theorem of real arithmetic (helps the nonlinear solvers, adds no assumption):
            # a >= 0 and b >= 1  =>  0 <= a / b <= a
            key = ('div-bound', q.sexpr() if hasattr(q, 'sexpr') else str(q))
            seen = getattr(ctx, '_div_axioms', None)
            if seen is None:
                seen = ctx._div_axioms = set()
            if key not in seen and len(seen) < 64:
                seen.add(key)
                ctx.axiom(z3.Implies(z3.And(zreal(a) >= 0, zreal(b) >= 1), z3.And(q >= 0, q <= zreal(a))))
        return mk_num(q)
    ta, tb = _pair(a, b)
    if op == '+':
        return mk_num(z3.simplify(ta + tb) if False else ta + tb)
    if op == '-':
        return mk_num(ta - tb)
    if op == '*':
        return mk_num(ta * tb)
    if op == '//':
        if num_is_int(a) and num_is_int(b):
            if _c(b) and b > 0:
                return mk_num(ta / tb)   # z3 int div = floor for positive divisor
            q = ctx.fresh_int('fdiv')
            r = ctx.fresh_int('fmod')
            ctx.axiom(z3.Implies(tb != 0, z3.And(ta == q * tb + r,
                                                  z3.Or(z3.And(tb > 0, r >= 0, r < tb), z3.And(tb < 0, r <= 0, r > tb)))))
            return SNum(q)
        raise EngineError('floor division of reals')
    if op == '%':
        if num_is_int(a) and num_is_int(b):
            if _c(b) and b > 0:
                return mk_num(ta % tb)
            raise EngineError('symbolic int modulus')
        # real modulus with positive modulus m:  a = k*m + r, 0 <= r < m
        k = ctx.fresh_int('rmodk')
        r = ctx.fresh_real('rmod')
        ctx.axiom(z3.Implies(tb > 0, z3.And(ta == z3.ToReal(k) * tb + r, r >= 0, r < tb)))
        return SNum(r)
    raise EngineError(f'arith op {op}')


def power(ctx, a, b):
    a, b = lift_float(a), lift_float(b)
    if _c(b) and (isinstance(b, int) or (isinstance(b, Fraction) and b.denominator == 1)) and abs(int(b)) <= 8:
        n = int(b)
        if _c(a):
            if n >= 0:
                return a ** n
            if a == 0:
                raise PyZeroDivision()
            return Fraction(a) ** n
        t = zval(a)
        if n == 0:
            return 1
        r = t
        for _ in range(abs(n) - 1):
            r = r * t
        if n < 0:
            return mk_num(1 / z3.ToReal(r) if r.sort().kind() == z3.Z3_INT_SORT else 1 / r)
        return mk_num(r)
    return uf_apply(ctx, 'pow', a, b)


def neg(a):
    a = lift_float(a)
    if _c(a):
        return -a
    return mk_num(-zval(a))


def compare(op, a, b):
    a, b = lift_float(a), lift_float(b)
    if isinstance(a, SBV) or isinstance(b, SBV):
        ta = a.t if isinstance(a, SBV) else z3.BitVecVal(int(a), SBV.W)
        tb = b.t if isinstance(b, SBV) else z3.BitVecVal(int(b), SBV.W)
        if op == '==':
            return mk_bool(ta == tb)
        if op == '!=':
            return mk_bool(ta != tb)
        raise EngineError('ordering on flag words')
    if _c(a) and _c(b):
        return {'<': a < b, '<=': a <= b, '>': a > b, '>=': a >= b, '==': a == b, '!=': a != b}[op]
    if isinstance(a, (SBool, bool)) and isinstance(b, (SBool, bool)) and op in ('==', '!='):
        t = zbool(a) == zbool(b)
        return mk_bool(t if op == '==' else z3.Not(t))
    ta, tb = _pair(a, b)
    t = {'<': ta < tb, '<=': ta <= tb, '>': ta > tb, '>=': ta >= tb, '==': ta == tb, '!=': ta != tb}[op]
    return mk_bool(t)


# ------------------------------------------------------------------------------------
# uninterpreted functions with instantiated axioms

def _to_sympy(t, syms):
    """z3 real/int term -> sympy expression (rational functions over atoms)"""
    import sympy
    if z3.is_int_value(t):
        return sympy.Integer(t.as_long())
    if z3.is_rational_value(t):
        return sympy.Rational(t.numerator_as_long(), t.denominator_as_long())
    k = t.decl().kind()
    ch = t.children()
    if k == z3.Z3_OP_ADD:
        return sympy.Add(*[_to_sympy(c, syms) for c in ch])
    if k == z3.Z3_OP_MUL:
        return sympy.Mul(*[_to_sympy(c, syms) for c in ch])
    if k == z3.Z3_OP_SUB:
        r = _to_sympy(ch[0], syms)
        for c in ch[1:]:
            r = r - _to_sympy(c, syms)
        return r
    if k == z3.Z3_OP_UMINUS:
        return -_to_sympy(ch[0], syms)
    if k == z3.Z3_OP_DIV:
        return _to_sympy(ch[0], syms) / _to_sympy(ch[1], syms)
    if k == z3.Z3_OP_TO_REAL:
        return _to_sympy(ch[0], syms)
    key = t.sexpr()
    if key not in syms:
        syms[key] = sympy.Symbol(f'a{len(syms)}')
    return syms[key]


def canon(ctx, t):
    """normal form of an arithmetic term as a rational function of its non-arithmetic atoms
    (polynomial normal form, back end N of DESIGN.md 3.6)"""
    if not hasattr(ctx, 'sym_atoms'):
        ctx.sym_atoms = {}
        ctx.canon_cache = {}
    i = t.get_id()
    if i not in ctx.canon_cache:
        import sympy
        try:
            e = _to_sympy(t, ctx.sym_atoms)
            e = sympy.cancel(sympy.together(e))
        except Exception:  # noqa
            e = None
        ctx.canon_cache[i] = (e, t)
    return ctx.canon_cache[i][0]


_P = (1 << 61) - 1      # Mersenne prime for fingerprints


def fingerprint(ctx, t):
    """value of an arithmetic term at a fixed pseudo-random point, modulo a large prime (atoms hashed by their
    text).  Different fingerprints => different rational functions; equal ones are confirmed symbolically."""
    if not hasattr(ctx, 'fp_cache'):
        ctx.fp_cache = {}
    i = t.get_id()
    if i in ctx.fp_cache:
        return ctx.fp_cache[i]
    r = _fp(ctx, t)
    ctx.fp_cache[i] = r
    return r


def _fp(ctx, t):
    import hashlib
    if z3.is_int_value(t):
        return t.as_long() % _P
    if z3.is_rational_value(t):
        d = t.denominator_as_long() % _P
        if d == 0:
            return None
        return (t.numerator_as_long() % _P) * pow(d, _P - 2, _P) % _P
    k = t.decl().kind()
    if k in (z3.Z3_OP_ADD, z3.Z3_OP_MUL, z3.Z3_OP_SUB, z3.Z3_OP_UMINUS, z3.Z3_OP_DIV, z3.Z3_OP_TO_REAL):
        cs = [fingerprint(ctx, c) for c in t.children()]
        if any(c is None for c in cs):
            return None
        if k == z3.Z3_OP_ADD:
            return sum(cs) % _P
        if k == z3.Z3_OP_MUL:
            r = 1
            for c in cs:
                r = r * c % _P
            return r
        if k == z3.Z3_OP_SUB:
            r = cs[0]
            for c in cs[1:]:
                r = (r - c) % _P
            return r
        if k == z3.Z3_OP_UMINUS:
            return (-cs[0]) % _P
        if k == z3.Z3_OP_TO_REAL:
            return cs[0]
        if cs[1] == 0:
            return None
        return cs[0] * pow(cs[1], _P - 2, _P) % _P
    h = hashlib.blake2b(t.sexpr().encode(), digest_size=8).digest()
    return int.from_bytes(h, 'big') % _P


def same_real(ctx, e1, t1, e2, t2):
    if t1.eq(t2):
        return True
    f1, f2 = fingerprint(ctx, t1), fingerprint(ctx, t2)
    if f1 is not None and f2 is not None and f1 != f2:
        return False
    if e1 is None:
        e1 = canon(ctx, t1)
    if e2 is None:
        e2 = canon(ctx, t2)
    if e1 is None or e2 is None:
        return False
    import sympy
    try:
        return sympy.cancel(e1 - e2) == 0
    except Exception:  # noqa
        return False


def _sum_of_squares(t):
    if z3.is_rational_value(t) or z3.is_int_value(t):
        return not str(t).startswith('-')
    k = t.decl().kind()
    if k == z3.Z3_OP_ADD:
        return all(_sum_of_squares(c) for c in t.children())
    if k == z3.Z3_OP_MUL and t.num_args() == 2:
        return t.arg(0).eq(t.arg(1))
    return False


def uf_apply(ctx, name, *args):
    args = [lift_float(a) for a in args]
    if ctx.concrete_math and all(_c(a) for a in args):
        return _native(name, args)
    zs = [zreal(a) for a in args]
    cs = [None for z in zs]
    if not hasattr(ctx, 'app_list'):
        ctx.app_list = {}
    for (zs2, cs2, r2) in ctx.app_list.get(name, []):
        if all(same_real(ctx, c1, z1, c2, z2) for c1, z1, c2, z2 in zip(cs, zs, cs2, zs2)):
            return SNum(r2)
    f = ctx.uf(name, *([R] * (len(zs) + 1)))
    r = f(*zs)
    ctx.app_list.setdefault(name, []).append((zs, cs, r))
    key = (name, len(ctx.apps))
    ctx.apps[key] = r
    ctx.trusted['math.' + name] += 1
    _axioms(ctx, name, zs, r)
    return SNum(r)


def _native(name, args):
    fa = [float(a) for a in args]
    try:
        v = getattr(math, name)(*fa)
    except ValueError:
        raise PyValueError()
    except ZeroDivisionError:
        raise PyZeroDivision()
    return Fraction(v)


def _axioms(ctx, name, zs, r):
    ax = ctx.axiom
    if name == 'sqrt':
        x, = zs
        if _sum_of_squares(x):
            ax(z3.And(r >= 0, r * r == x))      # a sum of squares is never negative
        else:
            ax(z3.Implies(x >= 0, z3.And(r >= 0, r * r == x)))
    elif name in ('sin', 'cos'):
        x, = zs
        s = uf_apply(ctx, 'sin', SNum(x)).t if name == 'cos' else r
        c = uf_apply(ctx, 'cos', SNum(x)).t if name == 'sin' else r
        if name == 'sin':
            ax(z3.And(s * s + c * c == 1, s >= -1, s <= 1, c >= -1, c <= 1))
            ax(z3.Implies(x == 0, z3.And(s == 0, c == 1)))
            # |x| < pi/2  =>  cos > 0 ; sign of sin follows x on (-pi, pi)
            ax(z3.Implies(z3.And(x > -1.5707, x < 1.5707), c > 0))
            ax(z3.Implies(z3.And(x > 0, x < 3.1415), s > 0))
            ax(z3.Implies(z3.And(x < 0, x > -3.1415), s < 0))
    elif name == 'tan':
        x, = zs
        s = uf_apply(ctx, 'sin', SNum(x)).t
        c = uf_apply(ctx, 'cos', SNum(x)).t
        ax(z3.Implies(c != 0, r * c == s))
        for k, r2 in list(ctx.apps.items()):
            if k[0] == 'atan':
                y2 = r2.arg(0)
                ax(z3.Implies(z3.And(y2 == r, x > -zreal(PI) / 2, x < zreal(PI) / 2), r2 == x))
    elif name == 'atan':
        y, = zs
        ax(z3.And(r > -1.5708, r < 1.5708))
        ax(z3.And(z3.Implies(y > 0, r > 0), z3.Implies(y == 0, r == 0), z3.Implies(y < 0, r < 0)))
        t = uf_apply(ctx, 'tan', SNum(r)).t
        ax(t == y)
        # strictly increasing: pairwise with earlier applications
        for k, r2 in list(ctx.apps.items()):
            if k[0] == 'atan' and not r2.eq(r):
                y2 = r2.arg(0)
                ax(z3.And(z3.Implies(y < y2, r < r2), z3.Implies(y2 < y, r2 < r), z3.Implies(y == y2, r == r2)))
            if k[0] == 'tan' and not r2.eq(t):
                # atan(tan x) = x on (-pi/2, pi/2)
                x2 = r2.arg(0)
                ax(z3.Implies(z3.And(y == r2, x2 > -zreal(PI) / 2, x2 < zreal(PI) / 2), r == x2))
    elif name == 'atan2':
        y, x = zs
        a = uf_apply(ctx, 'atan', SNum(y / x)).t
        ax(z3.Implies(x > 0, r == a))
    elif name == 'exp':
        ax(r > 0)
    elif name == 'pow':
        x, e = zs
        ax(z3.Implies(x > 0, r > 0))
        ax(z3.Implies(x == 1, r == 1))
        ax(z3.Implies(e == 1, r == x))
    elif name == 'radians':
        x, = zs
        ax(r == x * zreal(PI) / 180)


def m_abs(a):
    a = lift_float(a)
    if _c(a):
        return abs(a)
    t = zval(a)
    return mk_num(z3.If(t >= 0, t, -t))


def m_min(a, b):
    a, b = lift_float(a), lift_float(b)
    if _c(a) and _c(b):
        return min(a, b)
    ta, tb = _pair(a, b)
    # Python: min(a, b) returns a unless b < a
    return mk_num(z3.If(tb < ta, tb, ta))


def m_max(a, b):
    a, b = lift_float(a), lift_float(b)
    if _c(a) and _c(b):
        return max(a, b)
    ta, tb = _pair(a, b)
    return mk_num(z3.If(tb > ta, tb, ta))


def to_float(a):
    a = lift_float(a)
    if isinstance(a, bool):
        return Fraction(int(a))
    if isinstance(a, int):
        return Fraction(a)
    if isinstance(a, Fraction):
        return a
    if isinstance(a, SNum):
        return SNum(zreal(a)) if a.is_int() else a
    if isinstance(a, str):
        return Fraction(float(a))
    raise EngineError(f'float() of {a!r}')


def bv(v):
    if isinstance(v, SBV):
        return v.t
    if isinstance(v, bool):
        return z3.BitVecVal(int(v), SBV.W)
    if isinstance(v, int):
        return z3.BitVecVal(v, SBV.W)
    raise EngineError(f'not a flag word: {v!r}')


def mk_bv(t):
    t = z3.simplify(t)
    if z3.is_bv_value(t):
        return t.as_long()
    return SBV(t)
