"""Index of the function definitions of /repo as they are on disk *now* (re-read on every
run), tied to the live objects of the same working tree imported in this process."""
import ast
import importlib
import importlib.util
import os
import sys
import types
import warnings

from . import REPO
from .values import EngineError

PKG = 'py_ballisticcalc'
VERIF = os.path.dirname(os.path.dirname(os.path.abspath(__file__)))


class FuncInfo:
    def __init__(self, node, filename, qualname, globals_, defclass, pyfunc):
        self.node = node
        self.filename = filename
        self.qualname = qualname
        self.globals = globals_
        self.defclass = defclass
        self.pyfunc = pyfunc
        self.loops = None

    @property
    def key(self):
        if self.filename.startswith(REPO + os.sep):
            rel = os.path.relpath(self.filename, REPO)
        elif self.filename.startswith(VERIF + os.sep):
            rel = 'verif:' + os.path.relpath(self.filename, VERIF)
        elif os.path.basename(self.filename) == 'bisect.py':
            rel = 'Lib/bisect.py'
        else:
            rel = os.path.basename(self.filename)
        return f'{rel}::{self.qualname}'

    def loop_nodes(self):
        """while/for statements of this function in source order (nested defs excluded
        from their parent's numbering but numbered after it, in order)."""
        if self.loops is None:
            out = []

            def walk(n):
                for c in ast.iter_child_nodes(n):
                    if isinstance(c, (ast.While, ast.For)):
                        out.append(c)
                    walk(c)
            walk(self.node)
            self.loops = out
        return self.loops

    def __repr__(self):
        return f'<FuncInfo {self.key}>'


class RepoIndex:
    def __init__(self):
        self.trees = {}      # filename -> ast.Module
        self.by_line = {}    # (filename, lineno) -> (node, [class names])
        self.by_qual = {}    # (filename, qualname) -> node
        self.sources = {}
        self._infos = {}
        with warnings.catch_warnings():
            warnings.simplefilter('ignore')
            importlib.import_module(PKG)
        root = os.path.join(REPO, PKG)
        for dp, dn, fn in os.walk(root):
            for f in fn:
                if f.endswith('.py'):
                    self._parse(os.path.join(dp, f))
        import bisect as _b
        self.bisect_file = _b.__file__
        self._parse(self.bisect_file)

    def _parse(self, filename):
        with open(filename, encoding='utf-8') as fh:
            src = fh.read()
        tree = ast.parse(src, filename)
        self.trees[filename] = tree
        self.sources[filename] = src.splitlines()

        def walk(n, stack):
            for c in ast.iter_child_nodes(n):
                if isinstance(c, (ast.FunctionDef, ast.AsyncFunctionDef)):
                    q = '.'.join(stack + [c.name])
                    # several defs of the same name (property getter/setter): keep all
                    self.by_qual.setdefault((filename, q), []).append(c)
                    self.by_line[(filename, c.lineno)] = (c, list(stack))
                    for d in c.decorator_list:
                        self.by_line.setdefault((filename, d.lineno), (c, list(stack)))
                    walk(c, stack + [c.name])
                elif isinstance(c, ast.ClassDef):
                    walk(c, stack + [c.name])
                else:
                    walk(c, stack)
        walk(tree, [])

    # ------------------------------------------------------------------
    def module_for_file(self, filename):
        for m in list(sys.modules.values()):
            if getattr(m, '__file__', None) == filename:
                return m
        raise EngineError(f'no live module for {filename}')

    def info_for_pyfunc(self, f):
        """live function object -> FuncInfo (or None if it has no source in the index)."""
        f = getattr(f, '__func__', f)
        code = getattr(f, '__code__', None)
        if code is None:
            return None
        key = (code.co_filename, code.co_firstlineno)
        if key in self._infos:
            return self._infos[key]
        hit = self.by_line.get(key)
        if hit is None:
            return None
        node, stack = hit
        if node.name != f.__name__ and f.__name__ != '<lambda>':
            # alias such as __rshift__ = get_in keeps __name__ of the original: fine
            pass
        mod = self.module_for_file(code.co_filename)
        defclass = None
        obj = mod
        try:
            for nm in stack:
                obj = obj.__dict__[nm] if isinstance(obj, type) else getattr(obj, nm)
            if isinstance(obj, type):
                defclass = obj
        except (KeyError, AttributeError):
            defclass = None
        info = FuncInfo(node, code.co_filename, '.'.join(stack + [node.name]), mod.__dict__, defclass, f)
        self._infos[key] = info
        return info

    def find(self, relfile, qualname, which=None):
        """'py_ballisticcalc/unit.py', 'Distance.to_raw' -> FuncInfo.
        ``which`` selects among same-named defs ('setter' / 'getter' / ordinal)."""
        if relfile == 'Lib/bisect.py':
            filename = self.bisect_file
        elif relfile.startswith('verif:'):
            filename = os.path.join(VERIF, relfile[6:])
            if filename not in self.trees:
                self._parse(filename)
        else:
            filename = os.path.join(REPO, relfile)
        nodes = self.by_qual.get((filename, qualname))
        if not nodes:
            raise EngineError(f'contract does not bind: no function {qualname} in {relfile}')
        node = nodes[0]
        if which is not None:
            if isinstance(which, int):
                node = nodes[which]
            else:
                sel = [n for n in nodes if any(
                    (isinstance(d, ast.Attribute) and d.attr == which) or
                    (isinstance(d, ast.Name) and which == 'getter' and d.id == 'property')
                    for d in n.decorator_list)]
                if not sel:
                    raise EngineError(f'contract does not bind: no {which} for {qualname}')
                node = sel[0]
        mod = self.module_for_file(filename)
        parts = qualname.split('.')
        defclass = None
        obj = mod
        pyfunc = None
        try:
            for nm in parts[:-1]:
                obj = obj.__dict__[nm]
            if isinstance(obj, type):
                defclass = obj
            raw = obj.__dict__.get(parts[-1])
            if isinstance(raw, property):
                pyfunc = raw.fset if which == 'setter' else raw.fget
            elif isinstance(raw, (staticmethod, classmethod)):
                pyfunc = raw.__func__
            elif isinstance(raw, types.FunctionType):
                pyfunc = raw
        except (KeyError, AttributeError):
            pass
        key = (filename, node.lineno, 'find')
        if key not in self._infos:
            self._infos[key] = FuncInfo(node, filename, qualname, mod.__dict__, defclass, pyfunc)
        return self._infos[key]

    def source_line(self, filename, lineno):
        try:
            return self.sources[filename][lineno - 1].strip()
        except Exception:  # noqa
            return ''


_INDEX = None


def get_index():
    global _INDEX
    if _INDEX is None:
        _INDEX = RepoIndex()
    return _INDEX
