"""Bounded stand-ins (DESIGN.md 3.7): run-time checks of whole-trajectory clauses on seeded samples of the real
code.  Labelled bounded everywhere, never counted under obligations/discharged."""
import math
import random
import time
import warnings


def mk(name, ok, note, cases, t0, failing=None):
    o = {'name': f'bounded::{name}', 'short': name, 'kind': 'bounded', 'role': 'bounded', 'result': 'unsat' if ok else 'sat',
         'expect': 'unsat', 'ok': ok, 'time': round(time.time() - t0, 3), 'backend': 'native runs of the real code (bounded)',
         'line': None, 'note': note + ('' if ok else f'   FAILING CASE: {failing}'), 'props': [], 'cases': cases}
    if not ok:
        o['replay_native'] = ('#!/venv/bin/python\n# bounded stand-in ' + name + ' failed\nimport sys\nprint(' +
                              repr(f'{note}\nFAILING CASE: {failing}') + ')\nsys.exit(1)\n')
    return o


def std_shot(P, rng, look_deg=0.0, winds=None, mv=None, bc=None, table=None, sh=None):
    table = table or rng.choice([P.TableG1, P.TableG7])
    bc = bc or rng.uniform(0.15, 0.6)
    mv = mv or rng.uniform(800, 3200)
    sh = sh if sh is not None else rng.uniform(0, 3)
    w = P.Weapon(P.Unit.Inch(sh), P.Unit.Inch(rng.choice([0, 8, 12, -10])))
    a = P.Ammo(P.DragModel(bc, table, P.Unit.Grain(168), P.Unit.Inch(0.308), P.Unit.Inch(1.2)), P.Unit.FPS(mv))
    return P.Shot(w, a, look_angle=P.Unit.Degree(look_deg), winds=winds)


def pkg():
    warnings.simplefilter('ignore')
    import py_ballisticcalc as P
    P.PreferredUnits.defaults()
    P.reset_globals()
    return P
