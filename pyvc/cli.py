"""./check <PROP> [--tier quick|thorough]   -- decide one property on /repo's current tree.

exit 0  every obligation of the property discharged (known findings printed, not counted)
exit 1  VIOLATION property=<id> replay=<path> [no-failing-input-found]
exit 2  undecided (unknown / timeout / proof route lost without a failing input)
exit 3  checker fault (contract does not bind, function outside the subset, engine/CPython
        disagreement, zero obligations)"""
import argparse
import fnmatch
import importlib
import json
import multiprocessing as mp
import os
import pkgutil
import re
import sys
import time
import traceback
import warnings

warnings.simplefilter('ignore')

VERIF = os.path.dirname(os.path.dirname(os.path.abspath(__file__)))
sys.path.insert(0, VERIF)

from pyvc import REPO  # noqa: E402

ASSUMPTIONS = {
    'A-REAL': 'A-REAL: binary64 arithmetic treated as exact real arithmetic (float literals at their exact binary '
              'value); no rounding, overflow, NaN, inf, -0.0',
    'A-PY': 'A-PY: the modelled fragment of Python semantics (truthiness, operator dispatch incl. reflected '
            'comparison, floor division, loop desugaring) - cross-checked against CPython on witnesses every run, '
            'not proved',
    'A-LOG': 'A-LOG: logger.* / warnings.* calls and get_debug() blocks do not change program state',
    'A-LIBM': 'A-LIBM: math.sqrt/sin/cos/tan/atan/atan2/pow/exp are uninterpreted symbols constrained by the '
              'instantiated axioms of pyvc/mathmodel.py',
    'A-ALIAS': 'A-ALIAS: distinct parameters denote distinct objects unless a contract instance says Shared',
    'A-REFL': 'A-REFL: callers do not add attributes to quantities / mutate tuples by reflection',
    'A-BISECT': 'A-BISECT: the C accelerator _bisect.bisect_left behaves like Lib/bisect.py::bisect_left (which is '
                'what is verified)',
    'TOOLS': 'trusted tools: CPython, z3 5.1 (cvc5 1.0.3 for unknowns), the ast module, and the VC generator pyvc '
             'itself (mitigated by covers, native witnesses and the CPython cross-check, not eliminated)',
}


def load_contracts():
    import contracts
    for m in pkgutil.iter_modules(contracts.__path__):
        importlib.import_module(f'contracts.{m.name}')
    from pyvc.repoindex import get_index
    import contracts.specfn as sf
    get_index()._parse(sf.__file__)
    from pyvc.contract import REGISTRY
    return REGISTRY


def _worker(job):
    key, label, timeout_ms, seed = job
    from pyvc.verify import verify_instance
    try:
        return verify_instance(key, label, timeout_ms=timeout_ms, seed=seed)
    except BaseException as e:  # noqa
        return {'contract': key, 'instance': label, 'obligations': [], 'error': f'worker crash: {type(e).__name__}: {e}',
                'trace': traceback.format_exc()[-2000:], 'props': []}


def _extra_worker(job):
    modname, fname, tier, seed = job
    try:
        m = importlib.import_module(modname)
        return getattr(m, fname)(tier=tier, seed=seed)
    except BaseException as e:  # noqa
        return {'contract': f'{modname}.{fname}', 'instance': '', 'obligations': [],
                'error': f'extra check crash: {type(e).__name__}: {e}', 'trace': traceback.format_exc()[-2000:]}



def _child(conn, kind, job):
    tl = os.environ.get('PYVC_TASKLOG')
    if tl:     # debugging aid: which task does this process run
        try:
            os.makedirs(tl, exist_ok=True)
            open(os.path.join(tl, str(os.getpid())), 'w').write(f'{kind} {job[0]} {job[1]}\n')
        except OSError:
            pass
    res = _worker(job) if kind == 'contract' else _extra_worker(job)
    try:
        conn.send(res)
    finally:
        conn.close()


def _run_tasks(tasks, nproc, deadline):
    """one forked process per task, at most nproc at a time, each under a HARD deadline: z3's nonlinear engine does
    not always poll its own timeout (seen spinning for 20 minutes on a 20 s budget), and nothing inside the process can
    interrupt it.  A task killed at its deadline is reported as a checker fault for that function ('nothing
    concluded'); everything the other tasks found is still reported.  On the unchanged tree the longest task takes
    about two minutes."""
    ctx = mp.get_context('fork')
    # long poles first
    def prio(t):
        name = str(t[1][0]) + str(t[1][1])
        return 0 if ('_integrate' in name or 'should_record' in name or 'init_' in name or 'table_band' in name) else 1
    queue = sorted(tasks, key=prio)
    running, out, retried = [], [], set()
    while queue or running:
        while queue and len(running) < nproc:
            kind, job = queue.pop(0)
            pc, cc = ctx.Pipe(duplex=False)
            pr = ctx.Process(target=_child, args=(cc, kind, job), daemon=True)
            pr.start()
            cc.close()
            running.append((pr, pc, kind, job, time.time()))
        for r in running[:]:
            pr, pc, kind, job, ts = r
            name = f'{job[0]}' + (f'[{job[1]}]' if kind == 'contract' else f'.{job[1]}')
            done = None
            if pc.poll():
                try:
                    done = pc.recv()
                except (EOFError, OSError):
                    done = {'contract': name, 'instance': '', 'obligations': [], 'error': 'worker died without a result'}
            elif not pr.is_alive():
                # the child may have sent its result and exited between the two tests above
                if pc.poll(0.5):
                    try:
                        done = pc.recv()
                    except (EOFError, OSError):
                        done = None
                if done is None:
                    done = {'contract': name, 'instance': '', 'obligations': [], 'error': 'worker died without a result'}
            elif time.time() - ts > deadline and (kind, job) not in retried:
                # one retry in a fresh process: such hangs depend on timing (which obligations the parallel solver
                # passes left open), not on the input
                pr.kill()
                pr.join(timeout=5)
                pc.close()
                running.remove(r)
                retried.add((kind, job))
                queue.insert(0, (kind, job))
                continue
            elif time.time() - ts > deadline:
                pr.kill()
                done = {'contract': name, 'instance': '', 'obligations': [],
                        'error': f'not finished within the hard per-function deadline of {deadline} s, twice (a solver call '
                                 f'ignoring its timeout, or a proof lost on many paths); nothing is concluded for this '
                                 f'function from this run'}
            if done is not None:
                out.append(done)
                running.remove(r)
                pr.join(timeout=5)
                pc.close()
        time.sleep(0.02)
    return out

def load_known():
    p = os.path.join(VERIF, 'known_findings.json')
    if not os.path.exists(p):
        return []
    return json.load(open(p))


def run_property(pid, tier, seed, jobs=None):
    t0 = time.time()
    reg = load_contracts()
    from pyvc.verify import instances
    import props
    pmod = importlib.import_module(f'props.{pid}')
    timeout_ms = 20000 if tier == 'quick' else 120000
    work = []
    bind_errors = []
    for k, c in reg.items():
        if pid not in c.props and not any(pid in cl.props for cl in list(c.ensures) + [x for v in c.exc_ensures.values() for x in v]):
            continue
        try:
            for label, inst in instances(c):
                work.append((k, label, timeout_ms, seed))
        except Exception as e:  # noqa
            bind_errors.append({'contract': k, 'instance': '', 'obligations': [], 'error': f'{type(e).__name__}: {e}'})
    extras = [(f'props.{pid}', fn, tier, seed) for fn in getattr(pmod, 'EXTRA', [])]
    nproc = jobs or min(16, os.cpu_count() or 4)
    results = list(bind_errors)
    if work or extras:
        results += _run_tasks([('contract', w) for w in work] + [('extra', e) for e in extras], nproc,
                              deadline=420 if tier == "quick" else 1800)
    return finish(pid, pmod, tier, seed, results, time.time() - t0)


def _attributed(o, res, pid):
    """does obligation o of task result res count for property pid?"""
    ps = o.get('props') or []
    if ps:
        return pid in ps
    cp = res.get('props') or []
    return (not cp) or pid in cp


def finish(pid, pmod, tier, seed, results, wall):
    from pyvc.replay import run_replay
    known = [k for k in load_known() if k['property'] == pid]
    os.makedirs(os.path.join(VERIF, 'replays'), exist_ok=True)
    evdir = os.environ.get('PYVC_EVIDENCE_DIR') or os.path.join(VERIF, 'evidence')
    os.makedirs(evdir, exist_ok=True)
    faults, undecided, violations, known_hits = [], [], [], []
    all_obls, functions, trusted, dropped, bounded = [], {}, {}, {}, []
    cc_total = {'witnesses': 0, 'checked': 0}
    for res in results:
        if res.get('error'):
            faults.append(f"{res['contract']}[{res.get('instance', '')}]: {res['error']}")
            if res.get('trace') and os.environ.get('PYVC_TRACE'):
                sys.stderr.write(res['trace'] + '\n')
            if not res.get('obligations'):
                continue
            res.setdefault('function', res['contract'])
        fn = res.get('function', res['contract'])
        functions.setdefault(fn, {'instances': 0, 'obligations': 0, 'paths': 0})
        functions[fn]['instances'] += 1
        functions[fn]['paths'] += res.get('paths', 0)
        for k, v in (res.get('trusted') or {}).items():
            trusted[k] = trusted.get(k, 0) + v
        for k, v in (res.get('dropped') or {}).items():
            dropped[k] = dropped.get(k, 0) + v
        for b in res.get('bounded') or []:
            bounded.append(b)
        cc = res.get('crosscheck')
        if cc:
            cc_total['witnesses'] += cc['witnesses']
            cc_total['checked'] += cc['checked']
            if cc['mismatches']:
                faults.append(f"{res['contract']}[{res['instance']}]: engine/CPython cross-check mismatch: "
                              f"{cc['mismatches'][0]}")
            for cf in cc.get('clause_failures', []):
                res.setdefault('native_clause_failures', []).append(cf)
        route_failed = any((not o['ok']) and o['role'] in ('route', 'safety') and o['result'] == 'sat'
                           for o in res['obligations'])
        for o in res['obligations']:
            if not _attributed(o, res, pid):
                continue
            o['function'] = fn
            functions[fn]['obligations'] += 1
            all_obls.append(o)
            if o['ok']:
                continue
            if o['kind'] == 'cover':
                faults.append(f"vacuity guard failed: {o['name']} ({o['result']})")
                continue
            if o['kind'] == 'bounded':
                # bounded stand-in (never counted as proved): a failure is a concrete failing run of the real code
                hit = _match_known(o, known)
                if hit is not None:
                    known_hits.append((hit, o))
                    continue
                rp = os.path.join(VERIF, 'replays', _safe(f"{pid}-{o['name']}") + '.py')
                with open(rp, 'w') as fh:
                    fh.write(o.get('replay_native') or ('# bounded stand-in failed\n# ' + str(o.get('note')) + '\nimport sys; sys.exit(1)\n'))
                violations.append((o, rp, ''))
                continue
            if o['result'] in ('unknown',):
                undecided.append(o)
                continue
            # a counter-model exists
            hit = _match_known(o, known)
            rp = None
            reproduced = None
            if o.get('replay_src'):
                rp = os.path.join(VERIF, 'replays', _safe(f"{pid}-{o['name']}") + '.py')
                with open(rp, 'w') as fh:
                    fh.write(o['replay_src'])
                reproduced, rout = run_replay(rp)
                o['replay_output'] = rout[-1500:]
            elif o.get('replay_native'):
                rp = os.path.join(VERIF, 'replays', _safe(f"{pid}-{o['name']}") + '.py')
                with open(rp, 'w') as fh:
                    fh.write(o['replay_native'])
                reproduced, rout = run_replay(rp)
                o['replay_output'] = rout[-1500:]
            o['reproduced'] = reproduced
            if hit is not None:
                known_hits.append((hit, o))
                continue
            if reproduced:
                violations.append((o, rp, ''))
            elif o['role'] == 'clause':
                if rp is None:
                    rp = os.path.join(VERIF, 'replays', _safe(f"{pid}-{o['name']}") + '.txt')
                with open(rp, 'a' if rp.endswith('.py') else 'w') as fh:
                    fh.write('\n# ' + '\n# '.join([
                        f"failed obligation: {o['name']}", f"clause: {o.get('note')}", f"solver: {o['backend']} -> "
                        f"{o['result']}", f"counter-model (inputs): {o.get('inputs')}",
                        f"negated goal: {str(o.get('goal'))[:1500]}",
                        'native replay of this counter-model did not reproduce a failure '
                        '(no-failing-input-found)']) + '\n')
                violations.append((o, rp, ' no-failing-input-found'))
            else:
                undecided.append(o)
    # ---- report
    n_obl = len([o for o in all_obls if o['kind'] not in ('cover', 'bounded')])
    if n_obl == 0 and not faults:
        faults.append('zero obligations generated for this property')
    printed = set()
    for hit, o in known_hits:
        if hit['id'] not in printed:
            printed.add(hit['id'])
            print(f"KNOWN-FINDING: property={pid} {hit['what']} [{o['name']}]")
    for o, rp, suffix in violations:
        print(f"VIOLATION property={pid} replay={rp}{suffix}")
        print(f"  obligation: {o['name']}\n  clause: {o.get('note')}\n  counter-model: {o.get('inputs')}")
    for o in undecided:
        print(f"UNDECIDED property={pid} obligation={o['name']} result={o['result']} role={o['role']}")
    for f in faults:
        print(f"CHECKER-FAULT property={pid} {f}")
    known_names = {o['name'] for _, o in known_hits}
    counted = [o for o in all_obls if o['kind'] not in ('cover', 'bounded') and o['name'] not in known_names]
    for o in all_obls:
        if o['kind'] == 'bounded':
            bounded.append({'check': o['name'], 'what': o.get('note'), 'result': 'held on everything tried' if o['ok'] else 'FAILED', 'cases': o.get('cases'), 'seconds': o['time']})
    discharged = [o for o in counted if o['ok']]
    by_kind, by_backend = {}, {}
    for o in counted:
        by_kind[o['kind']] = by_kind.get(o['kind'], 0) + 1
        if o['ok']:
            by_backend[o['backend']] = by_backend.get(o['backend'], 0) + 1
    solver_time = round(sum(o['time'] for o in all_obls), 3)
    level = getattr(pmod, 'LEVEL', 'proof')
    samples = []
    seen_fn = set()
    for o in counted:
        if o['function'] not in seen_fn or len(samples) < 6:
            seen_fn.add(o['function'])
            samples.append({'obligation': o['name'], 'kind': o['kind'], 'role': o['role'], 'clause': o.get('note'),
                            'result': o['result'], 'backend': o['backend'], 'seconds': o['time']})
        if len(samples) >= 12:
            break
    used_assumptions = list(getattr(pmod, 'ASSUMES', ['A-REAL', 'A-PY', 'A-LOG', 'TOOLS']))
    if any(k.startswith('math.') for k in trusted) and 'A-LIBM' not in used_assumptions:
        used_assumptions.append('A-LIBM')
    if any('A-BISECT' in k for k in trusted) and 'A-BISECT' not in used_assumptions:
        used_assumptions.append('A-BISECT')
    ev = {
        'property_id': pid, 'tier': tier, 'seed': seed, 'level': level,
        'coverage': {
            'obligations': len(counted), 'discharged': len(discharged),
            'checker_cmd': f'./check {pid} --tier {tier}',
            'trusted_base': sorted(set(['z3 5.1.0 (python API)', 'cvc5 1.0.3 (fallback for z3 unknowns)', 'CPython ast',
                                        'pyvc VC generator (/verif/pyvc)'] +
                                       [f'external function modelled, not verified: {k}' for k in sorted(trusted)])),
            'explanation': getattr(pmod, 'EXPLANATION', ''),
            'functions_under_contract': functions,
            'obligations_by_kind': by_kind, 'discharged_by_backend': by_backend, 'solver_seconds': solver_time,
            'covers': len([o for o in all_obls if o['kind'] == 'cover']),
            'covers_ok': len([o for o in all_obls if o['kind'] == 'cover' and o['ok']]),
            'cpython_crosscheck': cc_total,
            'dropped_constructs': dropped,
            'bounded_standins': bounded,
            'not_decided': getattr(pmod, 'NOT_DECIDED', []),
            'known_findings_printed': sorted(printed),
            'undecided': [o['name'] for o in undecided],
            'samples': samples,
            'exhaustive': False,
        },
        'assumptions': [ASSUMPTIONS[a] for a in used_assumptions] + list(getattr(pmod, 'EXTRA_ASSUMPTIONS', [])),
        'wall_s': round(wall, 2),
        'violations': len(violations),
    }
    with open(os.path.join(evdir, f'{pid}.json'), 'w') as fh:
        json.dump(ev, fh, indent=1, default=str)
    status = 0
    if violations:
        status = 1
    elif faults:
        status = 3
    elif undecided:
        status = 2
    print(f"{pid}: {len(discharged)}/{len(counted)} obligations discharged, {len(violations)} violation(s), "
          f"{len(known_hits)} known-finding obligation(s), {len(undecided)} undecided, {len(faults)} fault(s); "
          f"functions under contract: {len(functions)}; solver {solver_time}s; wall {wall:.1f}s; exit {status}")
    return status


def _safe(s):
    import hashlib
    h = hashlib.md5(s.encode()).hexdigest()[:8]
    s = s.replace('py_ballisticcalc/', '').replace('trajectory_calc/_trajectory_calc.py', 'tc').replace('.py::', '.')
    return re.sub(r'[^A-Za-z0-9_.\-]+', '_', s)[:150] + '-' + h


_WITNESS_CACHE = {}


def _witness_still_fails(k):
    """the stored witness of a known finding must still fail natively on this tree (exit 1)"""
    w = k.get('witness')
    if not w:
        return True
    if w not in _WITNESS_CACHE:
        import subprocess
        try:
            p = subprocess.run(['/venv/bin/python', os.path.join(VERIF, w)], capture_output=True, text=True, timeout=120,
                               env={**os.environ, 'PYTHONPATH': REPO})
            _WITNESS_CACHE[w] = (p.returncode == 1)
        except Exception:  # noqa
            _WITNESS_CACHE[w] = False
    return _WITNESS_CACHE[w]


def _match_known(o, known):
    for k in known:
        if k.get('status', 'open') != 'open':
            continue
        if fnmatch.fnmatchcase(o['name'], k['obligation']) and _witness_still_fails(k):
            return k
    return None


def main():
    ap = argparse.ArgumentParser()
    ap.add_argument('prop')
    ap.add_argument('--tier', default=os.environ.get('VERIF_TIER', 'quick'))
    ap.add_argument('--replay')
    ap.add_argument('--jobs', type=int)
    a = ap.parse_args()
    if a.replay:
        from pyvc.replay import run_replay
        v, out = run_replay(a.replay)
        print(out)
        sys.exit(1 if v else 0)
    seed = int(os.environ.get('VERIF_SEED', '0') or 0)
    tier = a.tier if a.tier in ('quick', 'thorough') else 'quick'
    try:
        sys.exit(run_property(a.prop, tier, seed, a.jobs))
    except SystemExit:
        raise
    except BaseException as e:  # noqa
        traceback.print_exc()
        print(f'CHECKER-FAULT property={a.prop} {type(e).__name__}: {e}')
        sys.exit(3)


if __name__ == '__main__':
    main()
