"""Contract language (sidecar): contracts, loop contracts, input shapes (DESIGN.md 3.4)."""
import itertools
from fractions import Fraction

import z3

from .values import (SNum, SBool, SBV, SRec, SObj, SList, EngineError, lift_float, mk_num, is_sym)

REGISTRY = {}


class LoopContract:
    def __init__(self, invariants=(), variant=None, variant_lb=0, variant_dec=None, variant_dec_expr=None,
                 types=None, havoc=(), role='route', index=None, ghost_init=None, ghost_update=None,
                 lemmas_end=(), entry=(), step=(), hypotheses_end=(), independent=()):
        self.invariants = [(f'inv{i}', x) if isinstance(x, str) else tuple(x) for i, x in enumerate(invariants)]
        self.variant = variant
        self.variant_lb = variant_lb
        self.variant_dec = variant_dec
        self.variant_dec_expr = variant_dec_expr
        self.types = types or {}
        self.havoc = list(havoc)
        self.role = role
        self.index = index
        self.ghost_init = ghost_init
        self.ghost_update = ghost_update
        self.lemmas_end = list(lemmas_end)
        self.entry = _clauses(entry, 'clause')             # proved once, when the loop is first reached
        self.step = _clauses(step, 'clause')               # proved at the end of the body of an arbitrary iteration;
        #                                                    head(e) = value of e at the head of that iteration
        self.hypotheses_end = _clauses(hypotheses_end, 'hypothesis')   # ASSUMED at the end of the body (listed in evidence)
        self.independent = list(independent)               # (label, [outputs], [sources]): dependency obligations


class Clause:
    """``witness``: for a clause of the form exists(lo, hi, lambda v: body) the program expression
    (over the function's locals at return) that instantiates v when the clause is *proved*;
    callers still assume the existential."""

    def __init__(self, label, src, role='clause', props=(), witness=None):
        self.label = label
        self.src = src
        self.role = role
        self.props = tuple(props)
        self.witness = witness

    def proof_src(self):
        """clause text used when the clause is *proved*: each exists(lo, hi, lambda v: body) whose
        bound variable has a witness is instantiated with it"""
        if not self.witness:
            return self.src
        import ast
        wit = self.witness
        t = ast.parse(self.src.strip(), mode='eval')
        if isinstance(wit, str):
            b = t.body
            if not (isinstance(b, ast.Call) and isinstance(b.func, ast.Name) and b.func.id == 'exists'):
                raise EngineError(f'witness given for a clause that is not exists(...): {self.label}')
            wit = {b.args[2].args.args[0].arg: wit}
        used = set()

        class T(ast.NodeTransformer):
            def visit_Call(self, node):
                node = self.generic_visit(node)
                if isinstance(node.func, ast.Name) and node.func.id == 'exists' and len(node.args) == 3 \
                        and isinstance(node.args[2], ast.Lambda):
                    lo, hi, lam = node.args
                    v = lam.args.args[0].arg
                    if v in wit:
                        used.add(v)
                        src = (f'(lambda {v}: ({ast.unparse(lo)}) <= {v} < ({ast.unparse(hi)}) and '
                               f'({ast.unparse(lam.body)}))({wit[v]})')
                        return ast.parse(src, mode='eval').body
                return node
        t = T().visit(t)
        ast.fix_missing_locations(t)
        if used != set(wit):
            raise EngineError(f'witnesses {set(wit) - used} do not match an exists() in clause {self.label}')
        return ast.unparse(t)


def _clauses(xs, default_role):
    out = []
    for i, x in enumerate(xs or ()):
        if isinstance(x, Clause):
            out.append(x)
        elif isinstance(x, str):
            out.append(Clause(f'c{i}', x, default_role))
        elif isinstance(x, dict):
            out.append(Clause(x['label'], x['src'], x.get('role', default_role), x.get('props', ()), x.get('witness')))
        else:
            out.append(Clause(x[0], x[1], x[2] if len(x) > 2 else default_role, x[3] if len(x) > 3 else ()))
    return out


class Contract:
    """Contract of one repository function.

    key        'py_ballisticcalc/unit.py::Distance.to_raw'
    params     {name: Shape}; a Shape with alternatives (OneOf/Enum) makes one verification
               *instance* per combination
    requires   [(label, expr)]           assumed on entry, proved at modular call sites
    ensures    [(label, expr, role)]     proved for every normally returning path;
               parameter names denote entry values, ``result`` the return value, ``old(e)``
               evaluates e in the entry state
    raises     {ExcName: cond|None}      the function raises ExcName iff cond (on entry
               values); None = may raise, unconstrained.  Any other exception must be
               unreachable.
    loops      {ordinal: LoopContract}
    modifies   list of 'param.field' the function may write on pre-existing objects;
               None = not checked
    modular    callers use this contract instead of the body
    """

    def __init__(self, key, params=None, requires=(), ensures=(), raises=None, loops=None, modifies=None,
                 modular=False, which=None, props=(), note='', setup=None, result_shape=None, witnesses=(),
                 assume_result=None, ghost=None, exc_ensures=None, max_instances=None, instance_filter=None,
                 pre_state=None, trusted=False, reveal=(), functional=None, inline=(), functional_outputs=1,
                 prune=False, heavy=False, use=None, at_calls=None, hints=()):
        self.key = key
        self.params = params or {}
        self.requires = _clauses(requires, 'requires')
        self.ensures = _clauses(ensures, 'clause')
        self.raises = raises or {}
        self.loops = loops or {}
        self.modifies = modifies
        self.modular = modular
        self.which = which
        self.props = tuple(props)
        self.note = note
        self.setup = setup
        self.result_shape = result_shape
        self.witnesses = list(witnesses)
        self.exc_ensures = {k: _clauses(v, 'clause') for k, v in (exc_ensures or {}).items()}
        self.max_instances = max_instances
        self.instance_filter = instance_filter
        self.pre_state = pre_state
        self.trusted = trusted
        self.reveal = tuple(reveal)
        self.functional = functional     # name of the uninterpreted function the (pure) result is an application of
        self.functional_outputs = functional_outputs
        self.prune = prune
        self.heavy = heavy
        # 'div-bounds': every symbolic division a / b contributes the instantiated theorem a >= 0 and b >= 1 =>
        # 0 <= a / b <= a (opt-in: extra nonlinear facts slow down, and can hang, queries that do not need them)
        self.hints = tuple(hints)
        self.use = use or {}     # {callee key: [labels of the callee's ensures this caller relies on]} (default: all)
        self.inline = tuple(inline)      # callee keys whose bodies are executed here although they have modular contracts
        # {callee key: [(label, expr[, props])]}: what THIS function must pass to a callee used through its contract.
        # expr is over the callee's parameter names (the actual arguments) and caller_<name> (the caller's variables
        # at the call); proved at every such call site (kind 'call-args', role clause)
        self.at_calls = {k: _clauses(v, 'clause') for k, v in (at_calls or {}).items()}

    @property
    def relfile(self):
        return self.key.split('::')[0]

    @property
    def qualname(self):
        return self.key.split('::')[1]


def contract(key, tag=None, **kw):
    """register a contract.  Several contracts may describe one function (different input
    families): the untagged one is the primary (used at modular call sites and for loop
    contracts), tagged ones are additional verification tasks."""
    c = Contract(key, **kw)
    c.tag = tag
    k = key
    if kw.get('which') == 'setter':
        k = key + '@setter'
    if tag:
        k = f'{k}#{tag}'
    if k in REGISTRY:
        raise EngineError(f'duplicate contract {k}')
    REGISTRY[k] = c
    return c


# ---------------------------------------------------------------------------------------
# shapes

class Shape:
    def alternatives(self):
        return [self]

    def fresh(self, ctx, name, inputs=False):
        raise NotImplementedError

    def native(self, name, ev):
        """python source expression building the concrete value; ev(z3term)->Fraction/int/bool"""
        raise NotImplementedError

    def array_elem(self, ctx, name):
        """elem function index-term -> value backed by fresh z3 arrays (for lists of this shape)"""
        raise NotImplementedError

    def describe(self):
        return type(self).__name__


def _const(ctx, name, sort, inputs):
    if inputs:
        return ctx.input_const(name, sort)
    return z3.Const(name, sort)


class Real(Shape):
    def __init__(self, lo=None, hi=None, lo_open=False, hi_open=False, nonzero=False):
        self.lo, self.hi, self.lo_open, self.hi_open, self.nonzero = lo, hi, lo_open, hi_open, nonzero

    def constrain(self, ctx, t):
        from .values import zval
        if self.lo is not None:
            lo = zval(lift_float(self.lo))
            ctx.assume(t > lo if self.lo_open else t >= lo)
        if self.hi is not None:
            hi = zval(lift_float(self.hi))
            ctx.assume(t < hi if self.hi_open else t <= hi)
        if self.nonzero:
            ctx.assume(t != 0)

    def fresh(self, ctx, name, inputs=False):
        t = _const(ctx, name, z3.RealSort(), inputs)
        self.constrain(ctx, t)
        self.term = t
        return SNum(t)

    def native(self, name, ev):
        return _flt(ev.real(name, self))

    def engine(self, name, ev):
        return Fraction(float(ev.real(name, self)))

    def array_elem(self, ctx, name):
        a = z3.Array(name, z3.IntSort(), z3.RealSort())
        from .values import zval

        def elem(j):
            return SNum(z3.Select(a, zval(j)))
        elem.base_array = a
        if self.lo is not None or self.hi is not None or self.nonzero:
            # element bounds hold for every index
            q = z3.Int(f'{name}!j')
            cs = []
            if self.lo is not None:
                lo = zval(lift_float(self.lo))
                cs.append(z3.Select(a, q) > lo if self.lo_open else z3.Select(a, q) >= lo)
            if self.hi is not None:
                hi = zval(lift_float(self.hi))
                cs.append(z3.Select(a, q) < hi if self.hi_open else z3.Select(a, q) <= hi)
            if self.nonzero:
                cs.append(z3.Select(a, q) != 0)
            ctx.assume(z3.ForAll([q], z3.And(*cs), patterns=[z3.Select(a, q)]))
        return elem

    def native_elem(self, name, ev, j):
        return _flt(ev.elem(name, j, self))

    def engine_elem(self, name, ev, j):
        return Fraction(float(ev.elem(name, j, self)))

    def describe(self):
        return 'real'


def _flt(v):
    if isinstance(v, Fraction):
        f = float(v)
        return repr(f)
    if isinstance(v, bool):
        return repr(v)
    return repr(v)


class Int(Shape):
    def __init__(self, lo=None, hi=None):
        self.lo, self.hi = lo, hi

    def fresh(self, ctx, name, inputs=False):
        t = _const(ctx, name, z3.IntSort(), inputs)
        if self.lo is not None:
            ctx.assume(t >= self.lo)
        if self.hi is not None:
            ctx.assume(t <= self.hi)
        return SNum(t)

    def native(self, name, ev):
        return repr(int(ev.int(name, self)))

    def engine(self, name, ev):
        return int(ev.int(name, self))

    def array_elem(self, ctx, name):
        a = z3.Array(name, z3.IntSort(), z3.IntSort())
        from .values import zval
        return lambda j: SNum(z3.Select(a, zval(j)))

    def native_elem(self, name, ev, j):
        return repr(int(ev.elem(name, j, self)))

    def engine_elem(self, name, ev, j):
        return int(ev.elem(name, j, self))

    def describe(self):
        return 'int'


class Bool(Shape):
    def fresh(self, ctx, name, inputs=False):
        return SBool(_const(ctx, name, z3.BoolSort(), inputs))

    def native(self, name, ev):
        return repr(bool(ev.bool(name)))

    def engine(self, name, ev):
        return bool(ev.bool(name))

    def array_elem(self, ctx, name):
        a = z3.Array(name, z3.IntSort(), z3.BoolSort())
        from .values import zval
        return lambda j: SBool(z3.Select(a, zval(j)))

    def native_elem(self, name, ev, j):
        return repr(bool(ev.elem(name, j, self)))

    def engine_elem(self, name, ev, j):
        return bool(ev.elem(name, j, self))


class Flags(Shape):
    def fresh(self, ctx, name, inputs=False):
        return SBV(_const(ctx, name, z3.BitVecSort(SBV.W), inputs))

    def native(self, name, ev):
        return repr(int(ev.bv(name)))

    def engine(self, name, ev):
        return int(ev.bv(name))

    def array_elem(self, ctx, name):
        a = z3.Array(name, z3.IntSort(), z3.BitVecSort(SBV.W))
        from .values import zval
        return lambda j: SBV(z3.Select(a, zval(j)))

    def native_elem(self, name, ev, j):
        return repr(int(ev.elem(name, j, self)))

    def engine_elem(self, name, ev, j):
        return int(ev.elem(name, j, self))

    def describe(self):
        return 'flags'


class Const(Shape):
    def __init__(self, v, src=None):
        self.v = v
        self.src = src

    def fresh(self, ctx, name, inputs=False):
        return lift_float(self.v)

    def native(self, name, ev):
        if self.src is not None:
            return self.src
        import enum
        if isinstance(self.v, enum.Enum):
            return f'{type(self.v).__name__}.{self.v.name}'
        return repr(self.v)

    def engine(self, name, ev):
        return lift_float(self.v)

    def native_elem(self, name, ev, j):
        return self.native(name, ev)

    def engine_elem(self, name, ev, j):
        return lift_float(self.v)

    def array_elem(self, ctx, name):
        return lambda j: lift_float(self.v)

    def describe(self):
        import enum
        if isinstance(self.v, enum.Enum):
            return f'={self.v.name}'
        return f'={self.native("", None)}'


class OneOf(Shape):
    def __init__(self, *alts):
        self.alts = alts

    def alternatives(self):
        out = []
        for a in self.alts:
            out.extend(a.alternatives())
        return out


def Enum(*vals):
    return OneOf(*[Const(v) for v in vals])


class Rec(Shape):
    """NamedTuple of the repository"""

    def __init__(self, cls, **fields):
        self.cls = cls
        self.fields = fields

    def alternatives(self):
        keys = list(self.fields)
        alts = [self.fields[k].alternatives() for k in keys]
        return [Rec(self.cls, **dict(zip(keys, combo))) for combo in itertools.product(*alts)]

    def fresh(self, ctx, name, inputs=False):
        return SRec(self.cls, {k: self.fields[k].fresh(ctx, f'{name}.{k}', inputs) for k in self.cls._fields})

    def native(self, name, ev):
        args = ', '.join(f'{k}={self.fields[k].native(f"{name}.{k}", ev)}' for k in self.cls._fields)
        return f'{self.cls.__name__}({args})'

    def engine(self, name, ev):
        return SRec(self.cls, {k: self.fields[k].engine(f'{name}.{k}', ev) for k in self.cls._fields})

    def engine_elem(self, name, ev, j):
        return SRec(self.cls, {k: self.fields[k].engine_elem(f'{name}.{k}', ev, j) for k in self.cls._fields})

    def array_elem(self, ctx, name):
        subs = {k: self.fields[k].array_elem(ctx, f'{name}.{k}') for k in self.cls._fields}
        return lambda j: SRec(self.cls, {k: subs[k](j) for k in self.cls._fields})

    def native_elem(self, name, ev, j):
        args = ', '.join(f'{k}={self.fields[k].native_elem(f"{name}.{k}", ev, j)}' for k in self.cls._fields)
        return f'{self.cls.__name__}({args})'

    def describe(self):
        return self.cls.__name__


class Obj(Shape):
    """Object of a repository class built field by field (bypassing __init__).
    ``frozen`` objects reject mutation (used for elements of read-only symbolic lists)."""

    def __init__(self, cls, frozen=False, **fields):
        self.cls = cls
        self.fields = fields
        self.frozen = frozen

    def alternatives(self):
        keys = list(self.fields)
        alts = [self.fields[k].alternatives() for k in keys]
        return [Obj(self.cls, frozen=self.frozen, **dict(zip(keys, combo))) for combo in itertools.product(*alts)]

    def fresh(self, ctx, name, inputs=False):
        o = SObj(self.cls, {k: s.fresh(ctx, f'{name}.{k}', inputs) for k, s in self.fields.items()},
                 frozen=self.frozen, label=name)
        o.described = bool(self.fields)
        return o

    def native(self, name, ev):
        args = ', '.join(f'{k!r}: {s.native(f"{name}.{k}", ev)}' for k, s in self.fields.items())
        return f'_mk({self.cls.__name__}, {{{args}}})'

    def engine(self, name, ev):
        return SObj(self.cls, {k: s.engine(f'{name}.{k}', ev) for k, s in self.fields.items()}, frozen=self.frozen,
                    label=name)

    def engine_elem(self, name, ev, j):
        return SObj(self.cls, {k: s.engine_elem(f'{name}.{k}', ev, j) for k, s in self.fields.items()}, frozen=True)

    def array_elem(self, ctx, name):
        subs = {k: s.array_elem(ctx, f'{name}.{k}') for k, s in self.fields.items()}

        def mk(j):
            o = SObj(self.cls, {k: subs[k](j) for k in self.fields}, frozen=True)
            o.fields['__idx'] = j
            o.fields['__list'] = name
            return o
        return mk

    def native_elem(self, name, ev, j):
        args = ', '.join(f'{k!r}: {s.native_elem(f"{name}.{k}", ev, j)}' for k, s in self.fields.items())
        return f'_mk({self.cls.__name__}, {{{args}}})'

    def describe(self):
        cs = []
        for k, v in self.fields.items():
            if isinstance(v, Const):
                if k == '_defined_units':
                    cs.append(v.describe()[1:])
                else:
                    cs.append(f'{k}{v.describe()}')
            elif isinstance(v, (Obj, Built)):
                d = v.describe()
                if '(' in d:
                    cs.append(f'{k}:{d[d.index("(") + 1:-1]}')
        return self.cls.__name__ + (f'({",".join(cs)})' if cs else '')


class Built(Shape):
    """Object obtained by running the *real* constructor symbolically on scalar arguments
    (all constructor paths merged with ITE; raising paths are excluded by assumption).  The
    reachable representation - whatever fields the constructor sets - is thus taken from the
    code, not from the contract."""

    def __init__(self, cls, *args, **kwargs):
        self.cls = cls
        # used_=True: a LONG-USED object rather than a fresh one - every field that a method of the class other than
        # __init__ assigns holds, when the function under contract is called, whatever an arbitrary earlier call left
        # there.  Such a field is replaced by a leftover marker: writing it is fine, reading it before it has been
        # written in this call makes the function depend on its history (EngineError naming the field - never a pass).
        self.used = bool(kwargs.pop('used_', False))
        self.args = args
        self.kwargs = kwargs

    def alternatives(self):
        keys = list(self.kwargs)
        alts = [a.alternatives() for a in self.args] + [self.kwargs[k].alternatives() for k in keys]
        out = []
        for combo in itertools.product(*alts):
            out.append(Built(self.cls, *combo[:len(self.args)], used_=self.used,
                             **dict(zip(keys, combo[len(self.args):]))))
        return out

    @staticmethod
    def fields_written_outside_init(cls):
        """names of the attributes of self that methods of cls (other than __init__) assign - from the ast of the class
        in the working tree"""
        import ast
        import inspect
        import textwrap
        out = {}
        for k in cls.__mro__:
            if k is object or not getattr(k, '__module__', '').startswith('py_ballisticcalc'):
                continue
            tree = ast.parse(textwrap.dedent(inspect.getsource(k)))
            for fn in ast.walk(tree):
                if not isinstance(fn, (ast.FunctionDef, ast.AsyncFunctionDef)) or fn.name == '__init__' or not fn.args.args:
                    continue
                me = fn.args.args[0].arg
                for n in ast.walk(fn):
                    tg = n.targets if isinstance(n, ast.Assign) else [n.target] if isinstance(
                        n, (ast.AugAssign, ast.AnnAssign)) else []
                    for t in tg:
                        for e in ast.walk(t):
                            if isinstance(e, ast.Attribute) and isinstance(e.value, ast.Name) and e.value.id == me \
                                    and isinstance(e.ctx, ast.Store):
                                out.setdefault(e.attr, f'{k.__name__}.{fn.name}')
        return out

    def _run(self, ctx, args, kwargs, name):
        from .state import State
        from .values import Raised
        ip = ctx.ip
        s0 = State()
        s0.push(ctx.finfo0)
        ctx.spec_depth += 1
        try:
            outs = list(ip.construct(self.cls, list(args), dict(kwargs), s0, None))
        finally:
            ctx.spec_depth -= 1
        good = []
        for v, s in outs:
            cond = z3.And(*s.pc) if s.pc else z3.BoolVal(True)
            if isinstance(v, Raised):
                ctx.assume(z3.Not(cond))
            else:
                good.append((v, cond))
        if not good:
            raise EngineError(f'constructor of {self.cls.__name__} has no normal path for shape {name}')
        fields = dict(good[-1][0].fields)
        for v, cond in reversed(good[:-1]):
            if set(v.fields) != set(fields):
                raise EngineError(f'constructor paths of {self.cls.__name__} set different fields')
            for k in fields:
                fields[k] = ip.ite(SBool(cond), v.fields[k], fields[k])
        if self.used:
            from .values import Undefined
            for fld, where in self.fields_written_outside_init(self.cls).items():
                if fld.startswith('__') and not fld.endswith('__'):
                    fld = f'_{self.cls.__name__}{fld}'
                u = Undefined(f'{name}.{fld}')
                u.leftover = where
                fields[fld] = u
        return SObj(self.cls, fields, label=name)

    def fresh(self, ctx, name, inputs=False):
        args = [a.fresh(ctx, f'{name}.arg{i}', inputs) for i, a in enumerate(self.args)]
        kwargs = {k: a.fresh(ctx, f'{name}.{k}', inputs) for k, a in self.kwargs.items()}
        return self._run(ctx, args, kwargs, name)

    def native(self, name, ev):
        parts = [a.native(f'{name}.arg{i}', ev) for i, a in enumerate(self.args)]
        parts += [f'{k}={a.native(f"{name}.{k}", ev)}' for k, a in self.kwargs.items()]
        return f'{self.cls.__name__}({", ".join(parts)})'

    def engine(self, name, ev):
        args = [a.engine(f'{name}.arg{i}', ev) for i, a in enumerate(self.args)]
        kwargs = {k: a.engine(f'{name}.{k}', ev) for k, a in self.kwargs.items()}
        return self._run(ev.ctx, args, kwargs, name)

    def describe(self):
        cs = [a.describe()[1:] for a in list(self.args) + list(self.kwargs.values()) if isinstance(a, Const)]
        return self.cls.__name__ + (f'({",".join(cs)})' if cs else '') + ('<used>' if self.used else '')


def _unit_list(cls, unit, units):
    import enum as _e
    if unit is not None:
        return [unit]
    us = units if units is not None else [v for k, v in vars(cls).items() if isinstance(v, _e.Enum)]
    seen, uniq = set(), []
    for x in us:
        if x not in seen:
            seen.add(x)
            uniq.append(x)
    return uniq


def Quantity(cls, unit=None, value=None, units=None):
    """AbstractDimension instance built by the real constructor ``cls(v, unit)`` from a symbolic
    reading v in its unit; the unit ranges over ``units`` (one verification instance each)."""
    return Built(cls, value or Real(), Enum(*_unit_list(cls, unit, units)))


def QuantityF(cls, unit=None, value=None, units=None):
    """field-described quantity (symbolic base-unit magnitude): for elements of symbolic lists"""
    return Obj(cls, _value=value or Real(), _defined_units=Enum(*_unit_list(cls, unit, units)))


class ListOf(Shape):
    def __init__(self, elem, minlen=0, maxlen=None, is_tuple=False, frozen=False):
        self.elem = elem
        self.minlen = minlen
        self.maxlen = maxlen
        self.is_tuple = is_tuple
        self.frozen = frozen

    def alternatives(self):
        alts = self.elem.alternatives()
        return [ListOf(a, self.minlen, self.maxlen, self.is_tuple, self.frozen) for a in alts]

    def fresh(self, ctx, name, inputs=False):
        n = _const(ctx, f'{name}.len', z3.IntSort(), inputs)
        ctx.assume(n >= self.minlen)
        if self.maxlen is not None:
            ctx.assume(n <= self.maxlen)
        base = self.elem.array_elem(ctx, name)
        l = SList(elem=None, length=SNum(n), label=name, is_tuple=self.is_tuple)
        oid = l.oid

        def elem(j, base=base, oid=oid):
            v = base(j)
            if isinstance(v, SObj):
                v.fields['__owner'] = oid
            return v
        if hasattr(base, 'base_array'):
            elem.base_array = base.base_array
        l.elem = elem
        l.frozen = self.frozen
        l.shape = self
        return l

    def native(self, name, ev):
        n = max(int(ev.len(name, self)), 0)
        items = ', '.join(self.elem.native_elem(name, ev, j) for j in range(min(n, 200)))
        return f'({items}{"," if n == 1 else ""})' if self.is_tuple else f'[{items}]'

    def engine(self, name, ev):
        n = max(int(ev.len(name, self)), 0)
        l = SList(items=[self.elem.engine_elem(name, ev, j) for j in range(min(n, 200))], label=name,
                  is_tuple=self.is_tuple)
        l.frozen = self.frozen
        if not self.frozen:
            for it in l.items:
                if isinstance(it, SObj):
                    it.frozen = False
        return l

    def array_elem(self, ctx, name):
        raise EngineError('nested symbolic lists')

    def describe(self):
        return f'list[{self.elem.describe()}]'


class FixedList(Shape):
    """list of concrete length with given element shapes"""

    def __init__(self, *elems, is_tuple=False):
        self.elems = elems
        self.is_tuple = is_tuple

    def alternatives(self):
        alts = [e.alternatives() for e in self.elems]
        return [FixedList(*combo, is_tuple=self.is_tuple) for combo in itertools.product(*alts)]

    def fresh(self, ctx, name, inputs=False):
        items = [e.fresh(ctx, f'{name}[{i}]', inputs) for i, e in enumerate(self.elems)]
        if self.is_tuple:
            return tuple(items)
        return SList(items=items, label=name)

    def native(self, name, ev):
        items = ', '.join(e.native(f'{name}[{i}]', ev) for i, e in enumerate(self.elems))
        return f'({items}{"," if len(self.elems) == 1 else ""})' if self.is_tuple else f'[{items}]'

    def engine(self, name, ev):
        items = [e.engine(f'{name}[{i}]', ev) for i, e in enumerate(self.elems)]
        return tuple(items) if self.is_tuple else SList(items=items, label=name)

    def describe(self):
        return f'[{", ".join(e.describe() for e in self.elems)}]'


class DictOf(Shape):
    """dict with a concrete key set"""

    def __init__(self, **items):
        self.items = items

    def alternatives(self):
        keys = list(self.items)
        alts = [self.items[k].alternatives() for k in keys]
        return [DictOf(**dict(zip(keys, combo))) for combo in itertools.product(*alts)]

    def fresh(self, ctx, name, inputs=False):
        return {k: s.fresh(ctx, f'{name}[{k}]', inputs) for k, s in self.items.items()}

    def native(self, name, ev):
        return '{' + ', '.join(f'{k!r}: {s.native(f"{name}[{k}]", ev)}' for k, s in self.items.items()) + '}'

    def engine(self, name, ev):
        return {k: s.engine(f'{name}[{k}]', ev) for k, s in self.items.items()}

    def describe(self):
        return '{' + ', '.join(self.items) + '}'


class Shared(Shape):
    """the same object as another parameter (aliasing case)"""

    def __init__(self, other):
        self.other = other

    def describe(self):
        return f'is {self.other}'


def shape_of_value(v):
    from fractions import Fraction as F
    if isinstance(v, bool) or isinstance(v, SBool):
        return Bool()
    if isinstance(v, int) or (isinstance(v, SNum) and v.is_int()):
        return Int()
    if isinstance(v, (F, float, SNum)):
        return Real()
    if isinstance(v, SRec):
        return Rec(v.cls, **{k: shape_of_value(x) for k, x in v.vals.items()})
    if isinstance(v, SBV):
        return Flags()
    if isinstance(v, SObj):
        return Obj(v.cls, frozen=True, **{k: shape_of_value(x) for k, x in v.fields.items() if not k.startswith('__')})
    import enum
    if isinstance(v, enum.Enum) or isinstance(v, str) or v is None:
        return Const(v)
    raise EngineError(f'no shape for {v!r}')


# ---------------------------------------------------------------------------------------
# evaluators used by Shape.native / Shape.engine

class ModelEv:
    """values from a z3 model"""

    def __init__(self, model):
        from .solve import ModelEval
        self.ev = ModelEval(model)

    def real(self, name, shape):
        return self.ev(z3.Real(name))

    def int(self, name, shape):
        return self.ev(z3.Int(name))

    def bool(self, name):
        return self.ev(z3.Bool(name))

    def bv(self, name):
        return self.ev(z3.BitVec(name, SBV.W))

    def len(self, name, shape):
        return self.ev(z3.Int(f'{name}.len'))

    def elem(self, name, j, shape):
        sort = {Real: z3.RealSort(), Int: z3.IntSort(), Bool: z3.BoolSort(), Flags: z3.BitVecSort(SBV.W)}[type(shape)]
        return self.ev(z3.Select(z3.Array(name, z3.IntSort(), sort), z3.IntVal(j)))


class RandomEv:
    """seeded random values respecting the shapes' bounds (bounded native search / witnesses)"""
    EDGE = [0.0, 1.0, -1.0, 0.5, 2.0, 100.0, -100.0, 1e-3, 1e4]

    def __init__(self, rng, sorted_lists=False):
        self.rng = rng
        self.memo = {}
        self.sorted_lists = sorted_lists

    def _real(self, shape):
        v = self._real0(shape)
        pool = self.memo.setdefault('__pool', [])
        # boundary coincidences: now and then reuse a value generated earlier for another input
        if pool and self.rng.random() < 0.25:
            c = self.rng.choice(pool)
            lo, hi = getattr(shape, 'lo', None), getattr(shape, 'hi', None)
            if (lo is None or c > lo or (c == lo and not shape.lo_open)) and \
                    (hi is None or c < hi or (c == hi and not shape.hi_open)) and \
                    not (getattr(shape, 'nonzero', False) and c == 0):
                v = c
        pool.append(v)
        if len(pool) > 64:
            pool.pop(0)
        return v

    def _real0(self, shape):
        r = self.rng
        lo = shape.lo if getattr(shape, 'lo', None) is not None else None
        hi = shape.hi if getattr(shape, 'hi', None) is not None else None
        for _ in range(50):
            c = r.random()
            if lo is not None and hi is not None:
                v = r.uniform(float(lo), float(hi)) if c > 0.1 else r.choice([float(lo), float(hi)])
            elif c < 0.25:
                v = r.choice(self.EDGE)
            elif c < 0.5:
                v = float(r.randint(-20, 20))
            elif c < 0.8:
                v = r.uniform(-100, 100)
            else:
                v = r.uniform(-1, 1) * 10 ** r.randint(-3, 5)
            if lo is not None and (v < lo or (v == lo and shape.lo_open)):
                continue
            if hi is not None and (v > hi or (v == hi and shape.hi_open)):
                continue
            if getattr(shape, 'nonzero', False) and v == 0:
                continue
            return v
        return float(lo if lo is not None else hi)

    def real(self, name, shape):
        if name not in self.memo:
            self.memo[name] = self._real(shape)
        return self.memo[name]

    def int(self, name, shape):
        if name not in self.memo:
            lo = shape.lo if shape.lo is not None else -5
            hi = shape.hi if shape.hi is not None else lo + 12
            self.memo[name] = self.rng.randint(lo, hi)
        return self.memo[name]

    def bool(self, name):
        if name not in self.memo:
            self.memo[name] = self.rng.random() < 0.5
        return self.memo[name]

    def bv(self, name):
        if name not in self.memo:
            self.memo[name] = self.rng.choice([0, 1, 2, 3, 4, 8, 9, 12, 31, 16])
        return self.memo[name]

    def len(self, name, shape):
        k = name + '.len'
        if k not in self.memo:
            hi = shape.maxlen if shape.maxlen is not None else shape.minlen + 7
            self.memo[k] = self.rng.randint(shape.minlen, hi)
        return self.memo[k]

    def elem(self, name, j, shape):
        k = (name, j)
        if k not in self.memo:
            if isinstance(shape, Real):
                v = self._real(shape)
                srt = self.memo.setdefault(('__sorted', name), self.sorted_lists and self.rng.random() < 0.5)
                if srt and (name, j - 1) in self.memo:
                    prev = self.memo[(name, j - 1)]
                    pool = [c for c in self.memo.get('__pool', []) if c > prev]
                    if pool and self.rng.random() < 0.35:
                        v = min(pool)
                    else:
                        v = prev + (self.rng.uniform(0.05, 1.0) if self.rng.random() < 0.9 else 0.0)
                    self.memo.setdefault('__pool', []).append(v)
                elif srt and self.rng.random() < 0.7:
                    v = self.rng.uniform(-2.0, 2.0) if getattr(shape, 'lo', None) is None else \
                        float(shape.lo) + self.rng.uniform(0.0, 2.0) + (0.01 if shape.lo_open else 0.0)
                    self.memo.setdefault('__pool', []).append(v)
                self.memo[k] = v
            elif isinstance(shape, Int):
                self.memo[k] = self.int(f'{name}[{j}]', shape)
            elif isinstance(shape, Flags):
                self.memo[k] = self.rng.choice([0, 8, 8, 8, 1, 2, 4, 9, 10, 12])
            else:
                self.memo[k] = self.rng.random() < 0.5
        return self.memo[k]


class Pred(Shape):
    """uninterpreted predicate on the rows of a symbolic list (a callable parameter): applied to
    an element it yields P(index of the element)"""

    def __init__(self, of_list):
        self.of_list = of_list

    def fresh(self, ctx, name, inputs=False):
        f = z3.Function(name, z3.IntSort(), z3.BoolSort())
        return UPred(f, name)

    def native(self, name, ev):
        return f'(lambda row, _t={ev.pred_table(name)!r}: _t[id(row) % len(_t)] if _t else False)'

    def describe(self):
        return 'predicate'


class UPred:
    def __init__(self, f, name):
        self.f = f
        self.name = name


class OpaqueStr(Shape):
    """an arbitrary string whose normal form strip().lower() is the concrete string nf: the function may use it
    only through that normal form (C18 normal-form lemma), so one instance stands for every letter case and any
    surrounding blanks"""

    def __init__(self, nf):
        self.nf = nf

    def fresh(self, ctx, name, inputs=False):
        from .values import SOpaqueStr
        return SOpaqueStr(self.nf)

    def native(self, name, ev):
        # a representative with mixed case and surrounding blanks
        v = ''.join(c.upper() if i % 2 == 0 else c for i, c in enumerate(self.nf))
        return repr('  ' + v + ' ')

    def engine(self, name, ev):
        return eval(self.native(name, ev))

    def describe(self):
        return f'~{self.nf!r}'
