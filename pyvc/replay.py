"""Replay of a counter-model against the real code in CPython (/venv/bin/python).

The generated script is standalone: it builds the concrete arguments, calls the real
function from /repo, evaluates the failing clause natively and exits 1 if the real code
violates it, 0 if the violation is not reproduced (the model lives in a havocked loop
state, or is an artefact of A-REAL / an uninterpreted function)."""
import ast
import os
import subprocess
import sys

from . import REPO

VENV_PY = '/venv/bin/python'
VERIF = os.path.dirname(os.path.dirname(os.path.abspath(__file__)))


class _OldRewriter(ast.NodeTransformer):
    """old(e) -> pre-evaluated name; a == b between computed numbers -> eq(a, b): clauses are exact
    identities over the reals (A-REAL), natively they are checked to within rt.REPLAY_REL_TOL"""

    def __init__(self):
        self.olds = []

    def visit_Compare(self, node):
        node = self.generic_visit(node)
        if len(node.ops) == 1 and isinstance(node.ops[0], (ast.Eq, ast.NotEq)):
            a, b = node.left, node.comparators[0]
            if not any(isinstance(x, ast.Constant) and isinstance(x.value, (str, type(None))) for x in (a, b)):
                call = ast.Call(func=ast.Name(id='eq', ctx=ast.Load()), args=[a, b], keywords=[])
                if isinstance(node.ops[0], ast.NotEq):
                    return ast.UnaryOp(op=ast.Not(), operand=call)
                return call
        return node

    def visit_Call(self, node):
        if isinstance(node.func, ast.Name) and node.func.id == 'old' and len(node.args) == 1:
            k = len(self.olds)
            self.olds.append(ast.unparse(node.args[0]))
            return ast.Name(id=f'__old_{k}', ctx=ast.Load())
        return self.generic_visit(node)


def rewrite_old(src):
    tree = ast.parse(src.strip(), mode='eval')
    rw = _OldRewriter()
    tree = rw.visit(tree)
    ast.fix_missing_locations(tree)
    return ast.unparse(tree), rw.olds


def module_name(relfile):
    if relfile == 'Lib/bisect.py':
        return 'bisect'
    if relfile.startswith('verif:'):
        return relfile[6:-3].replace('/', '.')
    return relfile[:-3].replace('/', '.')


def call_expr(task):
    c = task.c
    parts = c.qualname.split('.')
    info = task.info
    a = info.node.args
    params = [p.arg for p in a.posonlyargs + a.args + a.kwonlyargs]
    given = [p for p in params if p in task.inst]
    if len(parts) == 1:
        f = f'M.{parts[0]}'
    else:
        cls = 'M.' + '.'.join(parts[:-1])
        raw = f"{cls}.__dict__[{parts[-1]!r}]"
        if c.which == 'setter':
            f = f'{raw}.fset'
        else:
            f = f"(lambda r: r.fget if isinstance(r, property) else (r.__func__ if isinstance(r, (staticmethod, " \
                f"classmethod)) else r))({raw})"
    return f, given


def make_replay(task, obl, ev, concrete_src=None):
    """script text for one failed obligation"""
    c = task.c
    f, given = call_expr(task)
    lines = []
    w = lines.append
    w(f'#!{VENV_PY}')
    w(f'# replay of failed obligation {task.name}::{obl.name}')
    w(f'# function under contract: {task.info.key} (line {task.info.node.lineno})')
    if obl.note:
        w(f'# clause: {obl.note}')
    w('import sys, copy, math, warnings')
    w("warnings.simplefilter('ignore')")
    w(f"sys.path.insert(0, {REPO!r}); sys.path.insert(0, {VERIF!r})")
    w('from py_ballisticcalc import *')
    w('import py_ballisticcalc')
    w(f'import {module_name(c.relfile)} as M')
    w('from pyvc.rt import *')
    w('from pyvc.rt import _mk, Struct')
    w('try:\n    from contracts.specfn import *\nexcept ImportError:\n    pass')
    w('ns = dict(vars(py_ballisticcalc)); ns.update(vars(M)); '
      'ns.update({k: v for k, v in globals().items() if not k.startswith("__")})')
    prelude = []
    if concrete_src is not None:
        srcs = dict(concrete_src)
        prelude = srcs.pop('__prelude__', [])
    else:
        srcs = {}
        for n, sh in task.inst.items():
            from .contract import Shared
            if isinstance(sh, Shared):
                continue
            srcs[n] = sh.native(n, ev)
    from .contract import Shared as _Sh
    for pre in prelude:
        # history: an earlier call of the same real function in this process (outcome ignored)
        w('# earlier call in the same process (history): its outcome is ignored')
        w('pargs = {}')
        for n, s in pre.items():
            w(f'pargs[{n!r}] = eval({s!r}, ns)')
        for n, sh in task.inst.items():
            if isinstance(sh, _Sh):
                w(f'pargs[{n!r}] = pargs[{sh.other!r}]')
        if c.setup is not None and getattr(c.setup, 'native_src', None):
            w(c.setup.native_src.replace('args', 'pargs'))
        w('try:')
        w(f'    ({f})(*[pargs[n] for n in {given!r}])')
        w('except Exception as e:')
        w('    pass')
        w('print("REPLAY: earlier call made with:", {k: repr(v)[:120] for k, v in pargs.items()})')
    w('args = {}')
    for n, s in srcs.items():
        w(f'args[{n!r}] = eval({s!r}, ns)')
    from .contract import Shared
    for n, sh in task.inst.items():
        if isinstance(sh, Shared):
            w(f'args[{n!r}] = args[{sh.other!r}]')
    if c.setup is not None and getattr(c.setup, 'native_src', None):
        w(c.setup.native_src)
    w(f'call_names = {given!r}')
    w('old_args = copy.deepcopy(args)')
    w('ns.update(args)')
    # requires
    reqs = [cl.src for cl in c.requires]
    w(f'requires = {reqs!r}')
    w('pre_ok = True')
    w('for r in requires:')
    w('    try:')
    w('        if not eval(r, ns): pre_ok = False; print("REPLAY: precondition not met natively:", r)')
    w('    except Exception as e: pre_ok = False; print("REPLAY: precondition raised natively:", r, repr(e))')
    kind = obl.kind
    clause = obl.note or 'True'
    olds = []
    if (kind in ('post',) or kind.startswith('exc-post:')) and obl.note:
        clause, olds = rewrite_old(obl.note)
    w('old_ns = dict(vars(py_ballisticcalc)); old_ns.update(vars(M)); old_ns.update({k: v for k, v in globals().items() if not k.startswith("__")}); '
      'old_ns.update(old_args)')
    for k, osrc in enumerate(olds):
        w(f'ns["__old_{k}"] = eval({osrc!r}, old_ns)')
    w('outcome = None')
    w('try:')
    w(f'    result = ({f})(*[args[n] for n in call_names])')
    w("    outcome = ('return', result)")
    w('except Exception as e:')
    w("    outcome = ('raise', e)")
    w('ns["result"] = outcome[1] if outcome[0] == "return" else None')
    w('print("REPLAY: inputs:", {k: (v if not hasattr(v, "__dict__") else (type(v).__name__, '
      '{a: getattr(v, a, None) for a in list(getattr(v, "__slots__", [])) + list(vars(v))})) '
      'for k, v in old_args.items()})')
    w('print("REPLAY: outcome:", outcome[0], repr(outcome[1])[:300])')
    w('violated = False')
    if kind == 'post':
        w('if outcome[0] == "return":')
        w('    try:')
        w(f'        ok = bool(eval({clause!r}, ns))')
        w('    except Exception as e:')
        w('        ok = False; print("REPLAY: clause raised", repr(e))')
        w('    violated = not ok')
        w('else:')
        excs = list(c.raises)
        w(f'    violated = type(outcome[1]).__name__ not in {excs!r} and not any(k.__name__ in {excs!r} '
          f'for k in type(outcome[1]).__mro__)')
    elif kind.startswith('exc-post:'):
        en = kind.split(':', 1)[1]
        w(f'if outcome[0] == "raise" and any(k.__name__ == {en!r} for k in type(outcome[1]).__mro__):')
        w('    ns["exc"] = outcome[1]')
        w('    try:')
        w(f'        ok = bool(eval({clause!r}, ns))')
        w('    except Exception as e:')
        w('        ok = False; print("REPLAY: clause raised", repr(e))')
        w('    violated = not ok')
    elif kind == 'raises':
        excs = list(c.raises)
        conds = {k: v for k, v in c.raises.items() if v is not None}
        w(f'conds = {conds!r}')
        w('for en, cond in conds.items():')
        w('    want = bool(eval(cond, old_ns))')
        w('    got = outcome[0] == "raise" and any(k.__name__ == en for k in type(outcome[1]).__mro__)')
        w('    if want != got: violated = True; print(f"REPLAY: {en}: contract says raised iff {cond!r} = {want}, '
          'real code raised it: {got}")')
        w(f'if outcome[0] == "raise" and not any(k.__name__ in {excs!r} for k in type(outcome[1]).__mro__):')
        w('    violated = True; print("REPLAY: exception not permitted by the contract:", repr(outcome[1]))')
    elif kind in ('nodiv0', 'index', 'domain'):
        excs = list(c.raises)
        w(f'if outcome[0] == "raise" and not any(k.__name__ in {excs!r} for k in type(outcome[1]).__mro__):')
        w('    violated = True')
    elif kind == 'frame':
        w('from pyvc.rtframe import deep_diff')
        w(f'diffs = deep_diff(old_args, args, {list(c.modifies or [])!r})')
        w('print("REPLAY: modified locations not in modifies:", diffs)')
        w('violated = bool(diffs)')
    else:
        w('pass')
    w('if not pre_ok: violated = False')
    w(f'print("REPLAY: clause:", {obl.note!r})')
    w('print("REPLAY:", "VIOLATED on the real code" if violated else "not reproduced")')
    w('sys.exit(1 if violated else 0)')
    return '\n'.join(lines) + '\n'


def run_replay(path, timeout=120):
    """returns (violated: bool|None, output)"""
    try:
        p = subprocess.run([VENV_PY, path], capture_output=True, text=True, timeout=timeout,
                           env={**os.environ, 'PYTHONPATH': ''})
    except subprocess.TimeoutExpired:
        return None, 'replay timed out'
    out = (p.stdout + p.stderr)[-4000:]
    if p.returncode == 1 and 'VIOLATED on the real code' in p.stdout:
        return True, out
    if p.returncode == 0:
        return False, out
    return None, out
