"""Verification of one contract instance: symbolic execution of the real function body,
generation of the named obligations, discharge, counter-model extraction."""
import ast
import itertools
import os
import time
import traceback

import z3

from . import REPO
from .contract import REGISTRY, Contract, ModelEv, OneOf, Shared
from .interp import Interp, find_by_oid
from .repoindex import get_index
from .solve import check
from .specns import SPEC_NS
from .state import Ctx, State, Obl
from .values import (SNum, SBool, SBV, SRec, SObj, SList, Raised, EngineError, same_value, is_num, is_sym, zval,
                     zbool, mk_bool)
from . import mathmodel as mm


def instances(c: Contract):
    """all combinations of alternatives of the parameter shapes"""
    names = list(c.params)
    alts = []
    for n in names:
        sh = c.params[n]
        alts.append(sh.alternatives() if not isinstance(sh, Shared) else [sh])
    out = []
    for combo in itertools.product(*alts):
        inst = dict(zip(names, combo))
        if c.instance_filter and not c.instance_filter(inst):
            continue
        label = ','.join(f'{n}{s.describe()}' for n, s in inst.items() if len(c.params[n].alternatives()) > 1
                         or any(len(a.alternatives()) > 1 for a in getattr(c.params[n], 'fields', {}).values()))
        out.append((label, inst))
    seen = {}
    uniq = []
    for label, inst in out:
        k = seen.get(label, 0)
        seen[label] = k + 1
        uniq.append((label if k == 0 else f'{label}#{k}', inst))
    out = uniq
    if c.max_instances and len(out) > c.max_instances:
        raise EngineError(f'{c.key}: {len(out)} instances exceed max_instances')
    return out


def contracts_by_key():
    d = {}
    for k, c in REGISTRY.items():
        if k.endswith('@setter') or getattr(c, 'tag', None):
            continue
        d[c.key] = c
    return d


class Task:
    """prepared symbolic execution of one instance (also used by cross-check / replay)"""

    def __init__(self, c, inst, label):
        self.c = c
        self.inst = inst
        self.label = label
        self.index = get_index()
        self.info = self.index.find(c.relfile, c.qualname, c.which)
        self.name = f'{c.key}' + (f'@{c.which}' if c.which else '') + (f'#{c.tag}' if getattr(c, 'tag', None) else '') \
            + (f'[{label}]' if label else '')
        self.ctx = Ctx(self.name)
        self.ctx.div_bounds = 'div-bounds' in getattr(c, 'hints', ())
        cs = contracts_by_key()
        ns = dict(SPEC_NS)
        try:
            import contracts.specfn as sf
            import types as _t
            ns.update({k: v for k, v in vars(sf).items() if not k.startswith('_') and not isinstance(v, _t.ModuleType)
                       and k not in ns})
        except ImportError:
            pass
        import py_ballisticcalc as _pkg
        ns['py_ballisticcalc'] = _pkg
        self.ip = Interp(self.ctx, self.index, cs, ns)
        self.ip.active_contract = c
        self.ip.prune_forks = bool(getattr(c, 'prune', False))
        if c.which == 'setter' or getattr(c, 'tag', None):
            # loop contracts etc. are looked up by key: make this contract the one for its key
            cs[c.key] = c

    def build_entry(self, values=None):
        """state at function entry.  ``values``: concrete engine values (cross-check) or None
        for fresh symbolic inputs."""
        c, ctx, ip = self.c, self.ctx, self.ip
        st = State()
        frame = st.push(self.info)
        ctx.ip = ip
        ctx.finfo0 = self.info
        args = {}
        for n, sh in self.inst.items():
            if isinstance(sh, Shared):
                continue
            if values is not None:
                args[n] = values[n]
            else:
                args[n] = sh.fresh(ctx, n, inputs=True)
        for n, sh in self.inst.items():
            if isinstance(sh, Shared):
                args[n] = args[sh.other]
        a = self.info.node.args
        params = [p.arg for p in a.posonlyargs + a.args + a.kwonlyargs]
        pyf = self.info.pyfunc
        defaults = {}
        if pyf is not None:
            pos = [p.arg for p in a.posonlyargs + a.args]
            for p, d in zip(pos[len(pos) - len(pyf.__defaults__ or ()):], pyf.__defaults__ or ()):
                defaults[p] = d
            defaults.update(pyf.__kwdefaults__ or {})
        for p in params:
            if p in args:
                frame.vars[p] = args[p]
            elif p in defaults:
                frame.vars[p] = ip.lift(defaults[p], st)
            else:
                raise EngineError(f'{c.key}: parameter {p} has neither a shape nor a default')
        if a.vararg or a.kwarg:
            if a.vararg:
                frame.vars[a.vararg.arg] = ()
            if a.kwarg:
                frame.vars[a.kwarg.arg] = args.get(a.kwarg.arg, {})
        for n in args:
            if n not in frame.vars:
                # extra ghost inputs (not parameters): visible to specs and setup
                frame.vars[n] = args[n]
        if c.setup:
            c.setup(ip, st, frame.vars)
        for nm in c.reveal:
            ctx.axiom(ip.reveal_axiom(ip.spec_ns[nm], st))
        frame.vars['__entry'] = {k: v for k, v in frame.vars.items() if not k.startswith('__')}
        for cl in c.requires:
            st.assume(ip.spec_bool(cl.src, st))
        st.old = st.clone()
        return st

    def run(self):
        """generator of (state, flow) at function exit"""
        st = self.build_entry()
        yield from self.ip.exec_block(self.info.node.body, st)


def _post_env(s, flow):
    entry = s.frame.vars.get('__entry', {})
    env = dict(entry)
    if flow is not None and flow[0] == 'return':
        env['result'] = flow[1]
    else:
        env['result'] = None
    return env


def _exc_name_match(cls, names):
    for k in cls.__mro__:
        if k.__name__ in names:
            return k.__name__
    return None


def generate(task: Task):
    """run the function and emit all contract obligations into task.ctx.obls"""
    c, ctx, ip = task.c, task.ctx, task.ip
    qn = c.qualname
    npaths = 0
    ret_pcs = []
    for s, flow in task.run():
        npaths += 1
        ctx.path_count += 1
        pid = npaths
        if flow is not None and flow[0] == 'raise':
            exc = flow[1]
            nm = _exc_name_match(exc.cls, c.raises)
            line = exc.fields.get('__line__')
            if nm is None:
                ctx.oblige(s, f'{qn}#unexpected-exception:{exc.cls.__name__}@path{pid}', 'raises', 'clause',
                           z3.BoolVal(False), note=f'{exc.cls.__name__}{exc.fields.get("args")}')
                continue
            cond = c.raises[nm]
            if cond is not None:
                f = ip.spec_bool(cond, s.old)
                ctx.oblige(s, f'{qn}#raises-only-if:{nm}@path{pid}', 'raises', 'clause', f, note=cond)
            else:
                # listed without a condition: permitted on any input (the obligation records that the path was seen)
                ctx.oblige(s, f'{qn}#raises-permitted:{nm}@path{pid}', 'raises', 'route', z3.BoolVal(True),
                           note=f'{nm} is listed by the contract without a condition')
            env = _post_env(s, None)
            env['exc'] = exc
            for cl in c.exc_ensures.get(nm, ()):
                f = ip.spec_bool(cl.src, s, extra=env)
                o = ctx.oblige(s, f'{qn}#exc-post:{nm}:{cl.label}@path{pid}', 'post', cl.role, f, note=cl.src)
                if o is not None:
                    o.clause = cl
            _frame_obligations(task, s, pid, exceptional=True)
            continue
        if flow is not None and flow[0] not in ('return',):
            raise EngineError(f'{flow[0]} at function level')
        ret_pcs.append(list(s.pc))
        env = _post_env(s, flow)
        for nm, cond in c.raises.items():
            if cond is not None:
                f = ip.spec_bool(cond, s.old)
                ctx.oblige(s, f'{qn}#no-raise-when:{nm}@path{pid}', 'raises', 'clause', z3.Not(f), note=cond)
        for cl in c.ensures:
            if cl.role == 'assumed':
                ctx.trusted[f'assumed clause of {qn}: {cl.label}'] += 0
                continue
            try:
                f = ip.spec_bool(cl.proof_src(), s, extra=env, locals_visible=True)
            except EngineError as e:
                if 'specification raises' not in str(e):
                    raise
                # the clause is undefined on this path (e.g. reads a field the path never set): the path
                # must then be infeasible
                ctx.oblige(s, f'{qn}#post:{cl.label}@path{pid}:clause-undefined-so-path-must-be-infeasible', 'post',
                           cl.role, z3.BoolVal(False), note=f'{cl.src}   [{e}]')
                continue
            o = ctx.oblige(s, f'{qn}#post:{cl.label}@path{pid}', 'post', cl.role, f, note=cl.src)
            if o is not None:
                o.clause = cl
            # clauses are proved in order; a later clause may rely on the earlier ones (each is an
            # obligation of its own, so nothing is assumed that is not also proved)
            s.assume(f)
        _frame_obligations(task, s, pid)
    # cover: requires satisfiable and some path returns (or raises as specified)
    st0 = State()
    o = Obl(f'{qn}#cover:requires-and-some-path', 'cover', 'cover', [], None)
    o.expect = 'sat'
    o.hyps = [z3.Or(*[z3.And(*pc) if pc else z3.BoolVal(True) for pc in ret_pcs])] if ret_pcs else [z3.BoolVal(False)]
    if ret_pcs or not c.raises:
        ctx.obls.append(o)
    return npaths


def _reachable_objects(v, acc, seen):
    if isinstance(v, SObj):
        if v.oid in seen:
            return
        seen.add(v.oid)
        acc.append(v)
        for x in v.fields.values():
            _reachable_objects(x, acc, seen)
    elif isinstance(v, SList):
        if v.oid in seen:
            return
        seen.add(v.oid)
        acc.append(v)
        for x in (v.items or []):
            _reachable_objects(x, acc, seen)
    elif isinstance(v, SRec):
        for x in v.vals.values():
            _reachable_objects(x, acc, seen)
    elif isinstance(v, (tuple, list)):
        for x in v:
            _reachable_objects(x, acc, seen)
    elif isinstance(v, dict):
        for x in v.values():
            _reachable_objects(x, acc, seen)


def _frame_obligations(task, s, pid, exceptional=False):
    """modifies clause: every field of every object that existed on entry is unchanged unless listed"""
    c, ctx, ip = task.c, task.ctx, task.ip
    if c.modifies is None:
        return
    old = s.old
    allowed = set()
    for m in c.modifies:
        if exceptional and m.startswith('normal:'):
            continue
        m = m.replace('normal:', '')
        allowed.add(m)
    old_objs, seen = [], set()
    oe = old.frame.vars.get('__entry', {})
    paths = {}

    def name_objs(v, path, seen2):
        if isinstance(v, (SObj, SList)):
            if v.oid in seen2:
                return
            seen2.add(v.oid)
            paths.setdefault(v.oid, path)
            kids = v.fields.items() if isinstance(v, SObj) else enumerate(v.items or [])
            for k, x in kids:
                name_objs(x, f'{path}.{k}' if isinstance(v, SObj) else f'{path}[{k}]', seen2)
        elif isinstance(v, SRec):
            for k, x in v.vals.items():
                name_objs(x, f'{path}.{k}', seen2)
        elif isinstance(v, (tuple, list)):
            for k, x in enumerate(v):
                name_objs(x, f'{path}[{k}]', seen2)
        elif isinstance(v, dict):
            for k, x in v.items():
                name_objs(x, f'{path}[{k!r}]', seen2)
    s2 = set()
    for k, v in oe.items():
        name_objs(v, k, s2)
    for k, v in old.lifted.items():
        name_objs(v, f'<global {getattr(v, "label", k)}>', s2)
    for k, v in oe.items():
        _reachable_objects(v, old_objs, seen)
    for v in old.lifted.values():
        _reachable_objects(v, old_objs, seen)
    for o0 in old_objs:
        o1 = find_by_oid(s, o0.oid)
        if o1 is None:
            continue   # unreachable now: cannot have been observed changed through the arguments
        pth = paths.get(o0.oid, f'obj{o0.oid}')
        if isinstance(o0, SObj):
            keys = set(o0.fields) | set(o1.fields)
            for k in sorted(keys):
                loc = f'{pth}.{k}'
                if _allowed(loc, allowed):
                    continue
                a, b = o0.fields.get(k, '<absent>'), o1.fields.get(k, '<absent>')
                _frame_eq(task, s, pid, loc, a, b)
        else:
            loc = f'{pth}[*]'
            if _allowed(loc, allowed) or _allowed(pth, allowed):
                continue
            if o0.concrete and o1.concrete:
                if len(o0.items) != len(o1.items):
                    _frame_fail(task, s, pid, loc + '.len')
                else:
                    for i, (a, b) in enumerate(zip(o0.items, o1.items)):
                        _frame_eq(task, s, pid, f'{pth}[{i}]', a, b)
            elif o0.elem is o1.elem and same_value(o0.length, o1.length):
                pass
            else:
                # symbolic list changed representation: compare length and a generic element
                la, lb = ip.seq_len(o0), ip.seq_len(o1)
                _frame_eq(task, s, pid, loc + '.len', la, lb)
                k = SNum(z3.Int(ctx.fresh_name('fk')))
                ea, eb = ip.seq_elem(o0, k), ip.seq_elem(o1, k)
                rng = z3.And(k.t >= 0, k.t < zval(la))
                _frame_eq(task, s, pid, loc, ea, eb, guard=rng)
    # globals / class attributes written
    for key, v in s.gl.items():
        loc = f'<global {key[1]}>'
        if not _allowed(loc, allowed):
            if key not in old.gl or not same_value(old.gl[key], v):
                _frame_eq(task, s, pid, loc, old.gl.get(key, '<unwritten>'), v)
    for key, v in s.cls_over.items():
        loc = f'{key[0].__name__}.{key[1]}'
        if not _allowed(loc, allowed):
            if key not in old.cls_over or not same_value(old.cls_over[key], v):
                _frame_eq(task, s, pid, loc, old.cls_over.get(key, '<unwritten>'), v)


def _allowed(loc, allowed):
    import fnmatch
    return any(fnmatch.fnmatchcase(loc, a) for a in allowed)


def _frame_fail(task, s, pid, loc):
    task.ctx.oblige(s, f'{task.c.qualname}#frame:{loc}@path{pid}', 'frame', 'clause', z3.BoolVal(False),
                    note=f'{loc} not in modifies')


def _frame_eq(task, s, pid, loc, a, b, guard=None):
    if same_value(a, b):
        return
    ip = task.ip
    try:
        if isinstance(a, (SObj, SList)) or isinstance(b, (SObj, SList)):
            same = isinstance(a, (SObj, SList)) and isinstance(b, (SObj, SList)) and a.oid == b.oid
            if not same:
                _frame_fail(task, s, pid, loc)
            return
        if isinstance(a, SRec) and isinstance(b, SRec) and a.cls is b.cls:
            for k in a.vals:
                _frame_eq(task, s, pid, f'{loc}.{k}', a.vals[k], b.vals[k], guard)
            return
        if (is_num(a) or isinstance(a, (SBool, bool, SBV))) and (is_num(b) or isinstance(b, (SBool, bool, SBV))):
            eq = mm.compare('==', a, b)
            f = zbool(eq) if not isinstance(eq, bool) else z3.BoolVal(eq)
            if guard is not None:
                f = z3.Implies(guard, f)
            task.ctx.oblige(s, f'{task.c.qualname}#frame:{loc}@path{pid}', 'frame', 'clause', f,
                            note=f'{loc} not in modifies')
            return
    except EngineError:
        pass
    _frame_fail(task, s, pid, loc)


# ---------------------------------------------------------------------------------------

_HASQ = {}


def has_quantifier(f):
    """memoised per hypothesis (the same path-condition conjuncts are asked about for every obligation of a path;
    the cache keeps the term alive, so its id cannot be re-used)"""
    k = f.get_id()
    hit = _HASQ.get(k)
    if hit is not None and hit[0].eq(f):
        return hit[1]
    seen = set()
    stack = [f]
    r = False
    while stack:
        x = stack.pop()
        if x.get_id() in seen:
            continue
        seen.add(x.get_id())
        if z3.is_quantifier(x):
            r = True
            break
        stack.extend(x.children())
    _HASQ[k] = (f, r)
    return r


def _cli_first(task, timeout_ms, threads=12):
    """heavy tasks: every obligation is dumped to SMT-LIB and given to the z3 4.8.12 CLI, 'threads' at a time;
    'unsat' is conclusive, anything else is decided afterwards by the in-process solver (which also provides
    the counter-model)"""
    from concurrent.futures import ThreadPoolExecutor
    from .solve import run_cli
    import time as _time
    ctx = task.ctx
    base = list(ctx.assumptions) + list(ctx.axioms)
    jobs = []
    for o in ctx.obls:
        if o.kind == 'cover' or o.goal is None:
            continue
        sv = z3.Solver()
        hyps = base + list(o.hyps)
        if getattr(o, 'qf_only', False):
            hyps = [h for h in hyps if not has_quantifier(h)]
        for h in hyps:
            sv.add(h)
        sv.add(z3.Not(o.goal))
        jobs.append((o, sv.to_smt2()))
    tmo = min(timeout_ms, 12000)

    def run(job):
        o, smt = job
        t0 = _time.time()
        r = run_cli(['/usr/bin/z3', f'-T:{max(2, int(tmo / 1000))}'], smt, tmo)
        return o, r, _time.time() - t0
    with ThreadPoolExecutor(threads) as ex:
        for o, r, secs in ex.map(run, jobs):
            if r == 'unsat':
                o.result, o.time, o.backend, o.model = 'unsat', secs, 'z3-4.8.12-cli', None
    # second pass for what the first left open (a loaded machine makes 12 s tight): fewer at a time, longer budget.
    # Keeping these away from the in-process solver matters: a subprocess can be killed at its deadline, the
    # in-process nonlinear engine cannot be interrupted when it stops polling its timeout.
    left = [(o, smt) for o, smt in jobs if o.result != 'unsat']
    if left and len(left) <= 40:
        tmo = min(max(timeout_ms, 20000), 40000)
        with ThreadPoolExecutor(max(2, threads // 2)) as ex:
            for o, r, secs in ex.map(run, left):
                if r == 'unsat':
                    o.result, o.time, o.backend, o.model = 'unsat', secs, 'z3-4.8.12-cli', None


def discharge(task: Task, timeout_ms=20000, keep_smt=0):
    ctx = task.ctx
    base = list(ctx.assumptions) + list(ctx.axioms)
    if getattr(task.c, 'heavy', False):
        _cli_first(task, timeout_ms)
    lost = 0
    for o in ctx.obls:
        if o.result == 'unsat' and o.backend == 'z3-4.8.12-cli':
            continue
        if lost >= 8 and o.kind != 'cover':
            # the proof of this function is already lost (8 obligations refuted or left open - never the case on a tree
            # where everything discharges): the remaining obligations get one short attempt each, so that the report
            # (violation with replay, or undecided) arrives in minutes rather than after every solver's full budget
            hyps = base + list(o.hyps)
            if getattr(o, 'qf_only', False):
                hyps = [h for h in hyps if not has_quantifier(h)]
            res, secs, backend, model, smt2 = check(hyps, o.goal, 2000, expect=o.expect, use_cvc5=False, tactics=False)
            o.result, o.time, o.backend, o.model = res, secs, backend + ' (short budget: proof already lost)', model
            continue
        if o.kind == 'cover':
            # satisfiability check: quantified hypotheses are dropped (a weaker set); 'sat' is then
            # confirmed by a native witness (crosscheck), 'unsat' of the weaker set is definitive
            hyps = [h for h in base + list(o.hyps) if not has_quantifier(h)]
            res, secs, backend, model, smt2 = check(hyps, None, min(timeout_ms, 5000), expect='sat', use_cvc5=False,
                                                    tactics=False)
        elif getattr(task.c, 'heavy', False):
            # heavy task, not closed by the parallel CLI pass: one short in-process attempt (it provides the
            # counter-model when there is one); anything else stays 'unknown'
            hyps = base + list(o.hyps)
            if getattr(o, 'qf_only', False):
                hyps = [h for h in hyps if not has_quantifier(h)]
            res, secs, backend, model, smt2 = check(hyps, o.goal, min(timeout_ms, 6000), expect=o.expect, use_cvc5=False,
                                                    tactics=False)
        else:
            hyps = base + list(o.hyps)
            qf = [h for h in hyps if not has_quantifier(h)]
            if getattr(o, 'qf_only', False):
                # lemma over the quantifier-free facts only (a weaker hypothesis set: still sound)
                hyps = qf
            elif len(qf) < len(hyps) and o.goal is not None:
                # first attempt without the quantified hypotheses (a weaker set, so 'unsat' is conclusive and
                # usually immediate); only if that does not succeed is the full set used
                r0 = check(qf, o.goal, min(timeout_ms, 3000), expect=o.expect, use_cvc5=False, tactics=False,
                           want_model=False)
                if r0[0] == 'unsat':
                    o.result, o.time, o.backend, o.model = 'unsat', r0[1], 'z3 (quantifier-free hypotheses)', None
                    continue
                # quantified obligations: the Debian z3 4.8.12 (CLI, on the SMT-LIB dump) instantiates these far
                # more reliably than the 5.1 wheel; an 'unsat' from it is conclusive
                from .solve import run_cli
                import time as _time
                t_cli = _time.time()
                sv = z3.Solver()
                for h in hyps:
                    sv.add(h)
                sv.add(z3.Not(o.goal))
                r1 = run_cli(['/usr/bin/z3', f'-T:{max(2, int(min(timeout_ms, 15000) / 1000))}'], sv.to_smt2(),
                             min(timeout_ms, 15000))
                if r1 == 'unsat':
                    o.result, o.time, o.backend, o.model = 'unsat', r0[1] + _time.time() - t_cli, 'z3-4.8.12-cli', None
                    continue
            res, secs, backend, model, smt2 = check(hyps, o.goal, timeout_ms, expect=o.expect)
        o.result, o.time, o.backend = res, secs, backend
        o.model = model
        if o.kind != 'cover' and res != o.expect:
            lost += 1
    return ctx.obls


def model_inputs(task: Task, model):
    """input symbol -> python value from a z3 model"""
    from .solve import ModelEval
    ev = ModelEval(model)
    out = {}
    for name, const in task.ctx.inputs.items():
        try:
            if z3.is_array(const):
                continue
            v = ev(const)
            out[name] = float(v) if not isinstance(v, (bool, int)) else v
        except Exception:  # noqa
            pass
    return out


def verify_instance(key, label, timeout_ms=20000, which=None, seed=0, crosscheck=True):
    """entry point run inside a worker process.  Returns plain data."""
    t0 = time.time()
    c = REGISTRY[key]
    out = {'contract': c.key + ('@setter' if c.which == 'setter' else ''), 'instance': label, 'obligations': [],
           'error': None, 'props': list(c.props)}
    try:
        inst = dict(instances(c))[label]
        task = Task(c, inst, label)
        out['function'] = task.info.key
        out['line'] = task.info.node.lineno
        npaths = generate(task)
        out['paths'] = npaths
        discharge(task, timeout_ms)
        if crosscheck:
            from .crosscheck import cross_check
            try:
                cc = cross_check(lambda: Task(c, inst, label), seed, want=3 if timeout_ms < 100000 else 12)   # thorough tier: 12
            except Exception as e:  # noqa
                cc = {'witnesses': 0, 'checked': 0, 'mismatches': [], 'clause_failures': [],
                      'skipped': f'{type(e).__name__}: {e}'}
            out['crosscheck'] = cc
            if cc.get('mismatches'):
                # the engine and CPython disagree on a witness (a construct modelled wrongly - or code that does
                # something the model has no notion of, e.g. memoises on an argument): before this is reported as a
                # checker fault, the contract's frame and clauses are searched natively, so that a real violation is
                # reported as one (bounded; with a replayed input)
                try:
                    from .crosscheck import native_search as _ns
                    from .replay import make_replay as _mr
                    for kd, cl in ([('frame', None)] if c.modifies is not None else []) + [('post', cl) for cl in c.ensures]:
                        src = cl.src if cl is not None else ''
                        srcs = _ns(task, kd, src, seed, tries=120, lenient=True)
                        if srcs is not None:
                            class _O2:
                                pass
                            fo = _O2()
                            lab = cl.label if cl is not None else 'modifies-nothing-else'
                            fo.name, fo.kind, fo.note = f'{c.qualname}#{kd}:{lab}@native', kd, src
                            out.setdefault('extra_obligations', []).append({
                                'name': f'{task.name}::{fo.name}', 'short': fo.name, 'kind': kd, 'role': 'clause',
                                'result': 'sat', 'expect': 'unsat', 'ok': False, 'time': 0.0, 'backend': 'native-search',
                                'line': None, 'note': src or f'modifies {list(c.modifies or [])} and nothing else',
                                'props': list(cl.props) if cl is not None else [],
                                'replay_src': _mr(task, fo, None, concrete_src=srcs),
                                'found_by': 'bounded native search after an engine/CPython cross-check mismatch'})
                            break
                except Exception:  # noqa
                    pass
            for o in task.ctx.obls:
                if o.kind == 'cover' and o.result == 'unknown' and cc['witnesses'] > 0:
                    o.result, o.backend = 'sat', 'native-witness'
        from .replay import make_replay
        searches, found_input = 0, False
        for o in task.ctx.obls:
            d = {'name': f'{task.name}::{o.name}', 'short': o.name, 'kind': o.kind, 'role': o.role,
                 'result': o.result, 'expect': o.expect, 'ok': o.ok, 'time': round(o.time, 4), 'backend': o.backend,
                 'line': o.line, 'note': o.note, 'props': list(getattr(getattr(o, 'clause', None), 'props', ()) or ())}
            if not o.ok and o.expect == 'unsat' and o.result == 'sat' and o.model is not None:
                try:
                    d['inputs'] = model_inputs(task, o.model)
                    d['replay_src'] = make_replay(task, o, ModelEv(o.model))
                    # does the counter-model reproduce natively?  if not, seeded search for a failing input
                    from .crosscheck import native_namespace, native_args, native_clause_violated, native_search
                    ns = native_namespace(task)
                    hit = False
                    try:
                        nargs = native_args(task, ModelEv(o.model), ns)
                        hit = native_clause_violated(task, ns, nargs, o.kind, o.note or 'True')
                    except Exception:  # noqa
                        hit = False
                    # the seeded search is expensive: at most three per instance, and none once a failing input
                    # has been found for this instance (one replayed input per function is what the report needs)
                    if hit:
                        found_input = True
                    if not hit and not found_input and searches < 3 and o.kind in (
                            'post', 'raises', 'frame', 'nodiv0', 'index', 'domain', 'inv-preserve', 'inv-entry', 'variant',
                            'lemma'):
                        searches += 1
                        kind = o.kind if o.kind in ('post', 'raises', 'frame', 'nodiv0', 'index', 'domain') else None
                        cands = [(kind, o.note or 'True')] if kind else \
                            [('post', cl.src) for cl in c.ensures] + [('raises', '')]
                        for kd, src in cands:
                            srcs = native_search(task, kd, src, seed)
                            if srcs is not None:
                                class _O:
                                    pass
                                fo = _O()
                                fo.name, fo.kind, fo.note = o.name, kd, src
                                d['replay_src'] = make_replay(task, fo, None, concrete_src=srcs)
                                d['found_by'] = 'seeded native search after the counter-model did not reproduce'
                                found_input = True
                                break
                except Exception as e:  # noqa
                    d['replay_error'] = f'{type(e).__name__}: {e}'
            if not o.ok:
                try:
                    d['goal'] = str(o.goal)[:600] if o.goal is not None else None
                except Exception:  # noqa
                    pass
            out['obligations'].append(d)
        out['obligations'].extend(out.pop('extra_obligations', []))
        out['trusted'] = dict(task.ctx.trusted)
        out['dropped'] = dict(task.ctx.dropped)
        out['inlined'] = dict(task.ctx.functions_inlined)
        out['contracts_used'] = dict(task.ctx.contracts_used)
        if not task.ctx.obls:
            out['error'] = 'no obligations generated'
    except EngineError as e:
        out['error'] = f'EngineError: {e}'
        out['trace'] = traceback.format_exc()[-1500:]
        # the proof could not be generated (contract does not bind / outside the subset): the clause-level
        # run-time contract is still searched for a failing input, so that a real violation is not hidden
        # behind a lost proof route (bounded; DESIGN.md 3.8)
        try:
            from .crosscheck import native_search
            from .replay import make_replay
            inst = dict(instances(c))[label]
            task = Task(c, inst, label)
            for kd, cl in ([('frame', None)] if c.modifies is not None else []) + \
                    [('post', cl) for cl in c.ensures] + [('raises', None)] + \
                    [(f'exc-post:{en}', cl) for en, cls in c.exc_ensures.items() for cl in cls]:
                src = cl.src if cl is not None else ''
                srcs = native_search(task, kd, src, seed, tries=120 if kd == 'frame' else 300, lenient=True)
                if srcs is not None:
                    class _O:
                        pass
                    fo = _O()
                    lab = cl.label if cl is not None else ('modifies-nothing-else' if kd == 'frame' else 'raises')
                    fo.name, fo.kind, fo.note = f'{c.qualname}#{kd}:{lab}@native', kd, src
                    kd = 'post' if kd.startswith('exc-post') else kd
                    out['obligations'].append({
                        'name': f'{task.name}::{fo.name}', 'short': fo.name, 'kind': kd, 'role': 'clause',
                        'result': 'sat', 'expect': 'unsat', 'ok': False, 'time': 0.0, 'backend': 'native-search',
                        'line': None, 'note': src, 'props': list(cl.props) if cl is not None else [],
                        'replay_src': make_replay(task, fo, None, concrete_src=srcs),
                        'found_by': 'bounded native search (proof not generated: ' + str(e)[:120] + ')'})
                    break
        except Exception:  # noqa
            pass
    except Exception as e:  # noqa
        out['error'] = f'{type(e).__name__}: {e}'
        out['trace'] = traceback.format_exc()[-2500:]
    out['wall'] = round(time.time() - t0, 3)
    return out
