"""Models of builtins and library functions (DESIGN.md 3.3, 'External functions')."""
import bisect
import math
import types
import typing
import warnings
from fractions import Fraction

import z3

from . import mathmodel as mm
from .values import (SNum, SBool, SBV, SRec, SObj, SList, SFunc, SBound, SOpaque, SOpaqueStr, Raised, Undefined,
                     EngineError, truth, b_not, b_and, b_or, mk_num, mk_bool, zval, zreal, zbool, is_sym, is_num,
                     lift_float, num_is_int)

INTRINSICS = {}


def intrinsic(*objs):
    def deco(f):
        for o in objs:
            INTRINSICS[o] = f
        return f
    return deco


def call_intrinsic(ip, h, fv, args, kwargs, st, node):
    r = h(ip, args, kwargs, st, node)
    if isinstance(r, types.GeneratorType):
        yield from r
    else:
        yield r, st


def _num(ip, node, v):
    v = lift_float(v)
    if isinstance(v, (SBool, bool)):
        return mk_num(zval(v))
    if not is_num(v):
        from .interp import PyRaise
        raise PyRaise(TypeError, f'must be real number, not {type(v).__name__}')
    return v


# -- math ------------------------------------------------------------------------

def _sum_of_squares(t):
    """syntactic: t is a sum of terms each of which is a product u*u (or a non-negative numeral)"""
    if z3.is_rational_value(t) or z3.is_int_value(t):
        return not str(t).startswith('-')
    k = t.decl().kind()
    if k == z3.Z3_OP_ADD:
        return all(_sum_of_squares(c) for c in t.children())
    if k == z3.Z3_OP_MUL and t.num_args() == 2:
        return t.arg(0).eq(t.arg(1))
    return False


def _uf1(name):
    def h(ip, args, kwargs, st, node):
        x = _num(ip, node, args[0])
        if name == 'sqrt' and is_sym(x) and _sum_of_squares(x.t):
            return mm.uf_apply(ip.ctx, name, x)       # a sum of squares is non-negative: no domain obligation
        if name == 'sqrt':
            neg = mm.compare('<', x, 0)
            if neg is True:
                raise mm.PyValueError()
            if neg is not False and not ip.ctx.spec_depth:
                ip.ctx.oblige(st, f'sqrt-domain@L{getattr(node, "lineno", 0)}', 'domain', 'safety',
                              z3.Not(neg.t), getattr(node, 'lineno', None))
                st.assume(z3.Not(neg.t))
        return mm.uf_apply(ip.ctx, name, x)
    return h


for _n in ('sqrt', 'sin', 'cos', 'tan', 'atan', 'exp', 'radians'):
    INTRINSICS[getattr(math, _n)] = _uf1(_n)


@intrinsic(Fraction)
def _fraction(ip, args, kwargs, st, node):
    if any(is_sym(a) for a in args):
        raise EngineError('Fraction() of symbolic value')
    return Fraction(*args)


@intrinsic(math.atan2)
def _atan2(ip, args, kwargs, st, node):
    return mm.uf_apply(ip.ctx, 'atan2', _num(ip, node, args[0]), _num(ip, node, args[1]))


@intrinsic(math.pow)
def _pow(ip, args, kwargs, st, node):
    return mm.power(ip.ctx, _num(ip, node, args[0]), _num(ip, node, args[1]))


@intrinsic(math.fabs)
def _fabs(ip, args, kwargs, st, node):
    return mm.to_float(mm.m_abs(_num(ip, node, args[0])))


@intrinsic(abs)
def _abs(ip, args, kwargs, st, node):
    return mm.m_abs(_num(ip, node, args[0]))


@intrinsic(math.floor)
def _floor(ip, args, kwargs, st, node):
    x = _num(ip, node, args[0])
    if not is_sym(x):
        return math.floor(x)
    if num_is_int(x):
        return x
    return mk_num(z3.ToInt(x.t))


@intrinsic(min)
def _min(ip, args, kwargs, st, node):
    if len(args) == 1:
        args = list(ip.as_sequence(args[0], node).items)
    r = args[0]
    for a in args[1:]:
        r = mm.m_min(r, a)
    return r


@intrinsic(max)
def _max(ip, args, kwargs, st, node):
    if len(args) == 1:
        args = list(ip.as_sequence(args[0], node).items)
    r = args[0]
    for a in args[1:]:
        r = mm.m_max(r, a)
    return r


@intrinsic(float)
def _float(ip, args, kwargs, st, node):
    if not args:
        return Fraction(0)
    v = args[0]
    if isinstance(v, SObj):
        return ip.call_dunder(v, '__float__', [], st, node)
    if isinstance(v, str):
        if v.strip().lower() in ('nan', 'inf', '-inf', '+inf', 'infinity'):
            return SOpaque('float:' + v.strip().lower())
        try:
            return Fraction(float(v))
        except ValueError:
            from .interp import PyRaise
            raise PyRaise(ValueError, 'could not convert string to float')
    if v is None or isinstance(v, (SList, tuple, dict)):
        from .interp import PyRaise
        raise PyRaise(TypeError, 'float() argument')
    return mm.to_float(v)


@intrinsic(int)
def _int(ip, args, kwargs, st, node):
    v = lift_float(args[0]) if args else 0
    if isinstance(v, bool):
        return int(v)
    if isinstance(v, int):
        return v
    if isinstance(v, Fraction):
        return int(v)
    if isinstance(v, SNum):
        if v.is_int():
            return v
        # truncation toward zero
        t = v.t
        return mk_num(z3.If(t >= 0, z3.ToInt(t), -z3.ToInt(-t)))
    if isinstance(v, SBool):
        return mk_num(zval(v))
    raise EngineError(f'int() of {v!r}')


@intrinsic(bool)
def _bool(ip, args, kwargs, st, node):
    if not args:
        return False

    def g():
        for tv, s in ip.truthy(args[0], st):
            yield tv, s
    return g()


@intrinsic(len)
def _len(ip, args, kwargs, st, node):
    v = args[0]
    if isinstance(v, SObj):
        return ip.call_dunder(v, '__len__', [], st, node)
    if isinstance(v, SRec):
        return len(v.vals)
    return ip.seq_len(v)


@intrinsic(round)
def _round(ip, args, kwargs, st, node):
    v = lift_float(args[0])
    if not is_sym(v) and all(not is_sym(a) for a in args[1:]):
        return lift_float(round(float(v), *[int(a) for a in args[1:]]))
    return SOpaque('round')


@intrinsic(hash)
def _hash(ip, args, kwargs, st, node):
    v = args[0]
    if isinstance(v, SObj):
        return ip.call_dunder(v, '__hash__', [], st, node)
    # hash is an uninterpreted function of its argument (tuple componentwise)
    ctx = ip.ctx
    if ctx.concrete_math:
        def nat(x):
            if isinstance(x, tuple):
                return tuple(nat(y) for y in x)
            if isinstance(x, Fraction):
                return float(x)
            return x
        return SOpaque('hash')     # bit-pattern dependent: not comparable with exact real arithmetic
    ctx.trusted['hash'] += 1

    def enc(x):
        x = lift_float(x)
        if isinstance(x, tuple):
            return [t for y in x for t in enc(y)]
        if is_num(x):
            return [zreal(x)]
        if isinstance(x, (SBool, bool)):
            return [zreal(mk_num(zval(x)))]
        import enum
        if isinstance(x, enum.Enum):
            return [z3.RealVal(int(x.value))]
        raise EngineError(f'hash of {x!r}')
    ts = enc(v)
    f = ctx.uf(f'hash{len(ts)}', *([z3.RealSort()] * len(ts) + [z3.IntSort()]))
    return SNum(f(*ts))


@intrinsic(isinstance)
def _isinstance(ip, args, kwargs, st, node):
    v, c = args
    cs = c if isinstance(c, tuple) else (c,)
    for k in cs:
        if _isinst(v, k):
            return True
    return False


def _isinst(v, k):
    import enum
    if not isinstance(k, type):
        if k is typing.Any:
            return True
        raise EngineError(f'isinstance with non-class {k!r}')
    if isinstance(v, SObj):
        return issubclass(v.cls, k)
    if isinstance(v, SRec):
        return issubclass(v.cls, k)
    if isinstance(v, (SBool, bool)):
        return k in (bool, int, object)
    if isinstance(v, enum.Enum):
        return isinstance(v, k)
    if isinstance(v, (SNum, Fraction, int, float)):
        if k is object:
            return True
        if k is bool:
            return False
        if isinstance(v, int) or (isinstance(v, SNum) and v.is_int()):
            return k is int
        # a real-valued number: a Python float (an int given where a float is expected behaves the same
        # through every isinstance test in the package, which always lists (float, int) together)
        return k in (float, int) and k is float or (k is int and False)
    if isinstance(v, SBV):
        return k in (int, object) or getattr(k, '__name__', '') == 'TrajFlag'
    if isinstance(v, (str, SOpaqueStr)):
        return k in (str, object)
    if isinstance(v, SOpaque):
        if v.tag.startswith('float:'):
            return k in (float, object)
        return k in (str, object)
    if isinstance(v, SList):
        return k in ((tuple, object) if v.is_tuple else (list, object))
    if v is None:
        return k in (type(None), object)
    if isinstance(v, (SFunc, SBound)):
        return k is object
    return isinstance(v, k)


@intrinsic(issubclass)
def _issubclass(ip, args, kwargs, st, node):
    return issubclass(args[0], args[1])


@intrinsic(hasattr)
def _hasattr(ip, args, kwargs, st, node):
    o, name = args
    if isinstance(name, SOpaqueStr):
        raise EngineError('hasattr with raw input string')
    if isinstance(o, SObj):
        return name in o.fields or hasattr(o.cls, name)
    if isinstance(o, type):
        return (o, name) in st.cls_over or hasattr(o, name)
    if isinstance(o, (SNum, Fraction, int, SBool)):
        return hasattr(1.0, name)
    return hasattr(o, name)


@intrinsic(getattr)
def _getattr(ip, args, kwargs, st, node):
    o, name = args[0], args[1]

    def g():
        for v, s in ip.getattr(o, name, st, node):
            if isinstance(v, Raised) and len(args) > 2 and issubclass(v.exc.cls, AttributeError):
                yield args[2], s
            else:
                yield v, s
    return g()


@intrinsic(setattr)
def _setattr(ip, args, kwargs, st, node):
    o, name, v = args

    def g():
        for r, s in ip.setattr(o, name, v, st, node):
            yield (r if isinstance(r, Raised) else None), s
    return g()


@intrinsic(range)
def _range(ip, args, kwargs, st, node):
    if len(args) == 1:
        lo, hi, step = 0, args[0], 1
    elif len(args) == 2:
        lo, hi, step = args[0], args[1], 1
    else:
        lo, hi, step = args
    if is_sym(step) or step != 1:
        if not any(is_sym(a) for a in (lo, hi, step)):
            return SList(items=list(range(lo, hi, step)), is_tuple=True)
        raise EngineError('range with symbolic / non-unit step')
    if not is_sym(lo) and not is_sym(hi):
        return SList(items=list(range(int(lo), int(hi))), is_tuple=True)
    n = mm.m_max(mm.arith(ip.ctx, '-', hi, lo), 0)
    return SList(elem=lambda j, lo=lo: mm.arith(ip.ctx, '+', lo, j), length=n, is_tuple=True)


@intrinsic(enumerate)
def _enumerate(ip, args, kwargs, st, node):
    seq = ip.as_sequence(args[0], node)
    start = args[1] if len(args) > 1 else kwargs.get('start', 0)
    n = ip.seq_len(seq)
    if not is_sym(n):
        return SList(items=[(start + k, ip.seq_elem(seq, k)) for k in range(n)], is_tuple=True)
    return SList(elem=lambda j, seq=seq: (mm.arith(ip.ctx, '+', j, start), ip.seq_elem(seq, j)), length=n,
                 is_tuple=True)


@intrinsic(reversed)
def _reversed(ip, args, kwargs, st, node):
    seq = ip.as_sequence(args[0], node)
    n = ip.seq_len(seq)
    if not is_sym(n):
        return SList(items=[ip.seq_elem(seq, k) for k in range(n - 1, -1, -1)], is_tuple=True)
    return SList(elem=lambda j, seq=seq, n=n: ip.seq_elem(seq, mm.arith(ip.ctx, '-', mm.arith(ip.ctx, '-', n, 1), j)),
                 length=n, is_tuple=True)


@intrinsic(zip)
def _zip(ip, args, kwargs, st, node):
    seqs = [ip.as_sequence(a, node) for a in args]
    ns = [ip.seq_len(s) for s in seqs]
    if any(is_sym(n) for n in ns):
        raise EngineError('zip of symbolic-length sequences')
    return SList(items=[tuple(ip.seq_elem(s, k) for s in seqs) for k in range(min(ns))], is_tuple=True)


@intrinsic(tuple)
def _tuple(ip, args, kwargs, st, node):
    if not args:
        return ()
    seq = ip.as_sequence(args[0], node)
    n = ip.seq_len(seq)
    if not is_sym(n):
        return tuple(ip.seq_elem(seq, k) for k in range(n))
    return SList(elem=seq.elem, length=n, is_tuple=True)


@intrinsic(list)
def _list(ip, args, kwargs, st, node):
    if not args:
        return SList(items=[])
    seq = ip.as_sequence(args[0], node)
    n = ip.seq_len(seq)
    if not is_sym(n):
        return SList(items=[ip.seq_elem(seq, k) for k in range(n)])
    return SList(elem=seq.elem, length=n)


@intrinsic(sorted)
def _sorted(ip, args, kwargs, st, node):
    return _sort_model(ip, ip.as_sequence(args[0], node), kwargs.get('key'), st, node)


def _sort_model(ip, seq, key, st, node):
    """sorted(xs, key): result is a permutation of xs ordered by key (stable).
    Concrete length: the permutation is chosen symbolically via a sorting network of ITEs on keys
    for n <= 4; otherwise modelled axiomatically by an uninterpreted permutation."""
    ctx = ip.ctx
    ctx.trusted['sorted'] += 1
    n = ip.seq_len(seq)

    def keyof(x):
        if key is None:
            return x
        return ip.spec_eval_with(ast_call_key(), st, extra={'__k': key, '__x': x})

    def g():
        if not is_sym(n):
            items = [ip.seq_elem(seq, k) for k in range(n)]
            keys = [keyof(x) for x in items]
            if all(not is_sym(k) for k in keys):
                order = sorted(range(n), key=lambda i: keys[i])
                yield SList(items=[items[i] for i in order]), st
                return
            if n > 4:
                raise EngineError('sorted() of more than 4 symbolic-key items')
            # enumerate all stable-sort outcomes by forking on key comparisons (insertion sort)
            yield from _insertion_sort_paths(ip, items, keys, st)
            return
        # symbolic length: permutation pi (uninterpreted), ordered keys, bijection axioms (quantified)
        pi = z3.Function(ctx.fresh_name('sortperm'), z3.IntSort(), z3.IntSort())
        inv = z3.Function(ctx.fresh_name('sortinv'), z3.IntSort(), z3.IntSort())
        i, j = z3.Int(ctx.fresh_name('si')), z3.Int(ctx.fresh_name('sj'))
        nt = zval(n)
        st.assume(z3.ForAll([i], z3.Implies(z3.And(0 <= i, i < nt), z3.And(0 <= pi(i), pi(i) < nt, inv(pi(i)) == i))))
        st.assume(z3.ForAll([i], z3.Implies(z3.And(0 <= i, i < nt), z3.And(0 <= inv(i), inv(i) < nt, pi(inv(i)) == i))))
        out = SList(elem=lambda jj, seq=seq: ip.seq_elem(seq, SNum(pi(zval(jj)))), length=n)
        ki = keyof(ip.seq_elem(out, SNum(i)))
        kj = keyof(ip.seq_elem(out, SNum(j)))
        st.assume(z3.ForAll([i, j], z3.Implies(z3.And(0 <= i, i < j, j < nt), zbool(mm.compare('<=', ki, kj)))))
        out.sort_perm = pi
        yield out, st
    return g()


def _insertion_sort_paths(ip, items, keys, st):
    def ins(sorted_idx, k, s):
        # insert item k into sorted_idx (stable: after all items with key <= key[k])
        def place(pos, s2):
            if pos == 0:
                yield [k] + sorted_idx, s2
                return
            prev = sorted_idx[pos - 1]
            c = mm.compare('<=', keys[prev], keys[k])
            for side, s3 in ip.fork(s2, c):
                if side:
                    yield sorted_idx[:pos] + [k] + sorted_idx[pos:], s3
                else:
                    yield from place(pos - 1, s3)
        yield from place(len(sorted_idx), s)

    def go(k, order, s):
        if k == len(items):
            yield SList(items=[items[i] for i in order]), s
            return
        for o2, s2 in ins(order, k, s):
            yield from go(k + 1, o2, s2)
    yield from go(0, [], st)


_KEYCALL = None


def ast_call_key():
    global _KEYCALL
    import ast
    if _KEYCALL is None:
        _KEYCALL = ast.parse('__k(__x)', mode='eval').body
    return _KEYCALL


@intrinsic(next)
def _next(ip, args, kwargs, st, node):
    # next((i for i in range(n) if cond), default): first index satisfying cond
    import ast
    if node is None or not node.args or not isinstance(node.args[0], ast.GeneratorExp):
        raise EngineError('next() on a non-literal generator')
    raise EngineError('next() handled syntactically')


@intrinsic(print)
def _print(ip, args, kwargs, st, node):
    return None


@intrinsic(any)
def _any(ip, args, kwargs, st, node):
    seq = ip.as_sequence(args[0], node)
    n = ip.seq_len(seq)
    if is_sym(n):
        raise EngineError('any() over symbolic-length sequence')
    return b_or(*[truth(ip.seq_elem(seq, k)) for k in range(n)])


@intrinsic(all)
def _all(ip, args, kwargs, st, node):
    seq = ip.as_sequence(args[0], node)
    n = ip.seq_len(seq)
    if is_sym(n):
        raise EngineError('all() over symbolic-length sequence')
    return b_and(*[truth(ip.seq_elem(seq, k)) for k in range(n)])


@intrinsic(str)
def _str(ip, args, kwargs, st, node):
    if args and isinstance(args[0], str):
        return args[0]
    return SOpaque('str')


@intrinsic(repr, object.__repr__)
def _repr(ip, args, kwargs, st, node):
    return SOpaque('repr')


@intrinsic(type)
def _type(ip, args, kwargs, st, node):
    v = args[0]
    if isinstance(v, (SObj, SRec)):
        return v.cls
    if isinstance(v, (SNum, Fraction)):
        return float if not num_is_int(v) else int
    if isinstance(v, SOpaqueStr):
        return str
    return type(v)


@intrinsic(object.__new__)
def _object_new(ip, args, kwargs, st, node):
    return SObj(args[0])


@intrinsic(typing.get_args)
def _get_args(ip, args, kwargs, st, node):
    return typing.get_args(args[0])


try:
    import typing_extensions as _te
    INTRINSICS[_te.get_args] = _get_args
except Exception:  # noqa
    pass


@intrinsic(warnings.warn, warnings.simplefilter)
def _warn(ip, args, kwargs, st, node):
    ip.ctx.dropped['warnings'] += 1
    return None


def _install_repo_intrinsics():
    import importlib
    lg = importlib.import_module('py_ballisticcalc.logger')
    INTRINSICS[lg.get_debug] = lambda ip, a, k, st, node: False


_install_repo_intrinsics()


@intrinsic(bisect.bisect_left)
def _bisect_left(ip, args, kwargs, st, node):
    # A-BISECT: the C accelerator behaves like Lib/bisect.py::bisect_left, which is what is analysed
    info = ip.index.find('Lib/bisect.py', 'bisect_left')
    ip.ctx.trusted['A-BISECT (_bisect.bisect_left == Lib/bisect.py)'] += 1
    import bisect as b
    c = ip.contracts.get(info.key)
    if c is not None and c.modular and ip.modular and not ip.ctx.spec_depth:
        from .modular import apply_contract
        return apply_contract(ip, c, info, args, kwargs, st, node)

    class _F:
        __defaults__ = (0, None)
        __kwdefaults__ = {'key': None}
    return ip.call_function(info, args, kwargs, st, node, pyfunc=_F)


# -- list / native container methods ----------------------------------------------------

def list_method(ip, lst, name, args, kwargs, st, node):
    if name == 'append':
        if lst.frozen or lst.is_tuple:
            ip.err(node, 'append to frozen list')
        if lst.concrete:
            lst.items.append(args[0])
        else:
            n = lst.length
            ip.list_store_append(lst, args[0]) if hasattr(ip, 'list_store_append') else _append_sym(ip, lst, args[0])
        yield None, st
        return
    if name == 'sort':
        if lst.frozen or lst.is_tuple:
            ip.err(node, 'sort of frozen list')
        for r, s in _sort_model(ip, lst, kwargs.get('key'), st, node):
            if isinstance(r, Raised):
                yield r, s
                continue
            tgt = ip.refind(lst, s)
            tgt.items, tgt.elem, tgt.length = r.items, r.elem, r.length
            if hasattr(r, 'sort_perm'):
                tgt.sort_perm = r.sort_perm
            yield None, s
        return
    if name == 'extend':
        other = ip.as_sequence(args[0], node)
        if lst.concrete and not is_sym(ip.seq_len(other)):
            lst.items.extend(ip.seq_elem(other, k) for k in range(ip.seq_len(other)))
            yield None, st
            return
        ip.err(node, 'extend with symbolic list')
    if name == 'index' or name == 'count' or name == 'remove' or name == 'pop' or name == 'insert':
        if lst.concrete and all(not is_sym(a) for a in args):
            try:
                r = getattr(lst.items, name)(*args)
            except ValueError:
                yield ip.raise_py(ValueError), st
                return
            except IndexError:
                yield ip.raise_py(IndexError), st
                return
            yield r, st
            return
        ip.err(node, f'list.{name} on symbolic list')
    if name == 'copy':
        yield (SList(items=list(lst.items)) if lst.concrete else SList(elem=lst.elem, length=lst.length)), st
        return
    ip.err(node, f'list method {name}')


def _append_sym(ip, lst, v):
    n = lst.length
    old = lst.elem
    lst.elem = lambda j, old=old, n=n, v=v: ip.ite(mm.compare('==', j, n), v, old(j)) if is_sym(j) or is_sym(n) \
        else (v if j == n else old(j))
    lst.length = mm.arith(ip.ctx, '+', n, 1)


def native_method(ip, o, name, args, kwargs, st, node):
    """methods of concrete str / tuple / dict values run natively (their structure is concrete)"""
    if isinstance(o, str):
        if any(is_sym(a) or isinstance(a, (SObj, SOpaqueStr)) for a in args):
            ip.err(node, f'str.{name} with symbolic argument')
        try:
            yield getattr(o, name)(*args, **kwargs), st
        except Exception as e:  # noqa
            yield ip.raise_py(type(e), str(e)), st
        return
    if isinstance(o, dict):
        if name in ('get', 'update', 'items', 'keys', 'values', 'pop', 'setdefault', 'copy'):
            if name in ('get', 'pop', 'setdefault') and (is_sym(args[0]) or isinstance(args[0], SOpaqueStr)):
                ip.err(node, 'symbolic dict key')
            if name == 'update' and args and not isinstance(args[0], dict):
                ip.err(node, 'dict.update with non-dict')
            try:
                r = getattr(o, name)(*args, **kwargs)
            except KeyError as e:
                yield ip.raise_py(KeyError, str(e)), st
                return
            if name in ('items', 'keys', 'values'):
                r = list(r) if name != 'values' else r
            yield r, st
            return
        ip.err(node, f'dict.{name}')
    if isinstance(o, tuple):
        if name in ('index', 'count') and not any(is_sym(a) for a in args):
            yield getattr(o, name)(*args), st
            return
    if type(o).__name__ in ('dict_items', 'dict_values', 'dict_keys'):
        ip.err(node, f'{type(o).__name__}.{name}')
    ip.err(node, f'method {name} of {type(o).__name__}')


def construct_builtin(ip, cls, args, kwargs, st, node):
    """constructors of builtin classes; NotImplemented if cls is not one of them"""
    if cls in INTRINSICS:
        return call_intrinsic(ip, INTRINSICS[cls], cls, args, kwargs, st, node)
    if cls is dict:
        def g():
            d = {}
            if args:
                if not isinstance(args[0], dict):
                    ip.err(node, 'dict(non-dict)')
                d.update(args[0])
            d.update(kwargs)
            yield d, st
        return g()
    if isinstance(cls, type) and issubclass(cls, BaseException) and cls.__module__ == 'builtins':
        def g():
            yield SObj(cls, {'args': tuple(args)}), st
        return g()
    return NotImplemented


@intrinsic(math.isclose)
def _isclose(ip, args, kwargs, st, node):
    """math.isclose(a, b, rel_tol=1e-09, abs_tol=0.0): |a - b| <= max(rel_tol * max(|a|, |b|), abs_tol) (finite values)"""
    from fractions import Fraction
    a, b = _num(ip, node, args[0]), _num(ip, node, args[1])
    rel = kwargs.get('rel_tol', Fraction(1, 10 ** 9))
    ab = kwargs.get('abs_tol', 0)
    rel = Fraction(rel) if isinstance(rel, float) else rel
    ab = Fraction(ab) if isinstance(ab, float) else ab
    d = mm.m_abs(mm.arith(ip.ctx, '-', a, b))
    bound = mm.m_max(mm.arith(ip.ctx, '*', rel, mm.m_max(mm.m_abs(a), mm.m_abs(b))), ab)
    return mm.compare('<=', d, bound)
