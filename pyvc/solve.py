"""Discharge of obligations: z3 (Python API) first, cvc5 / z3 CLI on the SMT-LIB dump for
unknowns (DESIGN.md 3.6)."""
import os
import subprocess
import tempfile
import time
from fractions import Fraction

import z3

CVC5 = '/usr/bin/cvc5'


def _to_py(v):
    if z3.is_int_value(v):
        return v.as_long()
    if z3.is_rational_value(v):
        return Fraction(v.numerator_as_long(), v.denominator_as_long())
    if z3.is_algebraic_value(v):
        a = v.approx(20)
        return Fraction(a.numerator_as_long(), a.denominator_as_long())
    if z3.is_true(v):
        return True
    if z3.is_false(v):
        return False
    if z3.is_bv_value(v):
        return v.as_long()
    return None


class ModelEval:
    def __init__(self, model):
        self.m = model

    def __call__(self, term):
        v = self.m.eval(term, model_completion=True)
        r = _to_py(v)
        if r is None:
            v = z3.simplify(v)
            r = _to_py(v)
        if r is None:
            raise ValueError(f'cannot evaluate {term} in model: {v}')
        return r


def check(hyps, goal, timeout_ms=20000, expect='unsat', use_cvc5=True, want_model=True, tactics=True):
    """returns (result, seconds, backend, model|None, smt2)"""
    t0 = time.time()
    s = z3.Solver()
    s.set('timeout', int(timeout_ms))
    for h in hyps:
        s.add(h)
    if goal is not None:
        s.add(z3.Not(goal))
    r = s.check()
    res = str(r)
    backend = 'z3'
    model = None
    if r == z3.sat and want_model:
        try:
            model = s.model()
        except z3.Z3Exception:
            model = None
    smt2 = None
    if res == 'unknown' and tactics:
        # second attempt: nlsat-based tactic for nonlinear real arithmetic
        try:
            g = z3.Goal()
            for a in s.assertions():
                g.add(a)
            t = z3.TryFor(z3.Then('simplify', 'purify-arith', 'solve-eqs', 'smt'), int(timeout_ms))
            s2 = t.solver()
            s2.set('timeout', int(timeout_ms))
            for a in s.assertions():
                s2.add(a)
            r2 = s2.check()
            if str(r2) != 'unknown':
                res = str(r2)
                backend = 'z3-tactic'
                if r2 == z3.sat and want_model:
                    model = s2.model()
        except z3.Z3Exception:
            pass
    if res == 'unknown' and use_cvc5:
        # other installed solvers on the SMT-LIB dump: the Debian z3 4.8.12 (different heuristics from the
        # 5.1 wheel: it decides several quantified nonlinear obligations the wheel leaves open), then cvc5
        smt2 = s.to_smt2()
        r3 = run_cli(['/usr/bin/z3', f'-T:{max(1, int(timeout_ms / 1000))}'], smt2, timeout_ms)
        if r3 == 'unsat':
            res, backend = r3, 'z3-4.8.12-cli'
        elif os.path.exists(CVC5):
            r4 = run_cvc5(smt2, timeout_ms)
            if r4 == 'unsat':
                res, backend = r4, 'cvc5'
    return res, time.time() - t0, backend, model, smt2


def run_cli(cmd, smt2, timeout_ms):
    with tempfile.NamedTemporaryFile('w', suffix='.smt2', delete=False) as fh:
        fh.write(smt2)
        path = fh.name
    try:
        p = subprocess.run(cmd + [path], capture_output=True, text=True, timeout=timeout_ms / 1000 + 10)
        out = p.stdout.strip().splitlines()
        return out[0].strip() if out else 'unknown'
    except Exception:  # noqa
        return 'unknown'
    finally:
        os.unlink(path)


def run_cvc5(smt2, timeout_ms):
    with tempfile.NamedTemporaryFile('w', suffix='.smt2', delete=False) as fh:
        # z3 emits no set-logic; cvc5 needs one
        fh.write('(set-logic ALL)\n' + smt2)
        path = fh.name
    try:
        p = subprocess.run([CVC5, f'--tlimit={int(timeout_ms)}', '--nl-ext-tplanes', path], capture_output=True,
                           text=True, timeout=timeout_ms / 1000 + 10)
        out = p.stdout.strip().splitlines()
        return out[0].strip() if out else 'unknown'
    except Exception:  # noqa
        return 'unknown'
    finally:
        os.unlink(path)
