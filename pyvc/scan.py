"""Package-wide exhaustive scans over the ast of every file of /repo/py_ballisticcalc (DESIGN.md 3.5):
attribute stores, loads of PreferredUnits.<slot> / display units, global writes, reflection.
Each hit becomes one obligation: discharged iff a contract-side rule permits it."""
import ast
import os
import time

from . import REPO

PKG_DIR = os.path.join(REPO, 'py_ballisticcalc')


def package_files(exclude=()):
    out = []
    for dp, dn, fn in os.walk(PKG_DIR):
        for f in sorted(fn):
            if f.endswith('.py'):
                p = os.path.join(dp, f)
                rel = os.path.relpath(p, REPO)
                if any(rel.startswith(e) for e in exclude):
                    continue
                out.append((rel, p))
    return sorted(out)


class _Ctx(ast.NodeVisitor):
    """walks a module keeping the qualified name of the enclosing function/class"""

    def __init__(self, rel, on_node):
        self.rel = rel
        self.stack = []
        self.on_node = on_node

    def visit_FunctionDef(self, node):
        self.stack.append(node.name)
        self.generic_visit(node)
        self.stack.pop()

    visit_AsyncFunctionDef = visit_FunctionDef
    visit_ClassDef = visit_FunctionDef

    def generic_visit(self, node):
        self.on_node(node, '.'.join(self.stack))
        super().generic_visit(node)


def walk_package(on_node, exclude=()):
    for rel, p in package_files(exclude):
        tree = ast.parse(open(p, encoding='utf-8').read(), p)
        _Ctx(rel, lambda n, q, rel=rel: on_node(rel, q, n)).visit(tree)


def attribute_stores(attr=None):
    """[(rel, qualname, lineno, target-source)] for every store to .<attr> (Assign/AugAssign/AnnAssign/
    setattr/object.__setattr__/del)"""
    hits = []

    def on(rel, q, n):
        tgts = []
        if isinstance(n, ast.Assign):
            tgts = n.targets
        elif isinstance(n, (ast.AugAssign, ast.AnnAssign)):
            tgts = [n.target]
        elif isinstance(n, ast.Delete):
            tgts = n.targets
        for t in tgts:
            for e in ast.walk(t):
                if isinstance(e, ast.Attribute) and isinstance(e.ctx, (ast.Store, ast.Del)) and \
                        (attr is None or e.attr == attr):
                    hits.append((rel, q, e.lineno, ast.unparse(e)))
        if isinstance(n, ast.Call):
            f = ast.unparse(n.func)
            if f in ('setattr', 'object.__setattr__', 'delattr') and len(n.args) >= 2:
                a = n.args[1]
                name = a.value if isinstance(a, ast.Constant) else None
                if attr is None or name == attr or name is None:
                    hits.append((rel, q, n.lineno, ast.unparse(n)))
    walk_package(on)
    return hits


def name_loads(pred):
    """[(rel, qualname, lineno, source)] for every expression node satisfying pred(node)"""
    hits = []

    def on(rel, q, n):
        if pred(n):
            hits.append((rel, q, getattr(n, 'lineno', 0), ast.unparse(n)))
    walk_package(on)
    return hits


def result(name, obligations, t0, props=()):
    """package a scan as a task result for the CLI"""
    return {'contract': name, 'instance': '', 'function': name, 'obligations': obligations, 'error': None,
            'props': list(props), 'paths': 0, 'wall': round(time.time() - t0, 3), 'trusted': {}, 'dropped': {}}


def obl(name, ok, note, role='clause', kind='frame', line=None):
    return {'name': name, 'short': name, 'kind': kind, 'role': role, 'result': 'unsat' if ok else 'sat',
            'expect': 'unsat', 'ok': ok, 'time': 0.0, 'backend': 'ast-scan (exhaustive over the package)',
            'line': line, 'note': note, 'props': []}


# ---------------------------------------------------------------------------------------------------------------------
# shared mutable containers: module- and class-level lists / dicts / sets that package code mutates.
# The symbolic executor reads module and class attributes from the live objects (their import-time content).  That is
# only sound for containers nothing in the package writes to: a memo / registry filled by earlier calls has, at the
# time a function under contract is called, whatever an arbitrary call history left in it.
MUTATORS = {'append', 'extend', 'insert', 'pop', 'popitem', 'clear', 'update', 'setdefault', 'remove', 'add', 'discard',
            'sort', 'reverse', '__setitem__', '__delitem__', 'appendleft', 'move_to_end'}
_SHARED = None


def _base_name(e):
    if isinstance(e, ast.Name):
        return e.id
    if isinstance(e, ast.Attribute):
        return e.attr
    return None


def container_mutation_sites():
    """{name: [(rel, qualname, lineno, source)]}: every statement that mutates a container reached through a plain
    name or an attribute of that name (by name only: conservative)"""
    sites = {}

    def hit(name, rel, q, n):
        sites.setdefault(name, []).append((rel, q, getattr(n, 'lineno', 0), ast.unparse(n)[:120]))

    def on(rel, q, n):
        tgts = []
        if isinstance(n, ast.Assign):
            tgts = n.targets
        elif isinstance(n, (ast.AugAssign, ast.AnnAssign)):
            tgts = [n.target]
        elif isinstance(n, ast.Delete):
            tgts = n.targets
        for t in tgts:
            for e in ast.walk(t):
                if isinstance(e, ast.Subscript) and isinstance(e.ctx, (ast.Store, ast.Del)):
                    b = _base_name(e.value)
                    if b:
                        hit(b, rel, q, n)
        if isinstance(n, ast.AugAssign) and q:       # x += [...] inside a function on a global list
            b = _base_name(n.target)
            if b and isinstance(n.target, ast.Attribute):
                hit(b, rel, q, n)
        if isinstance(n, ast.Call) and isinstance(n.func, ast.Attribute) and n.func.attr in MUTATORS:
            b = _base_name(n.func.value)
            if b:
                hit(b, rel, q, n)
    walk_package(on)
    return sites


def shared_mutable_roots():
    """{id(container): (where, name, sites)} for module-/class-level containers of the live package that some package
    code mutates *inside a function* (module-level initialisation code runs once, at import)"""
    global _SHARED
    if _SHARED is not None:
        return _SHARED
    import sys
    sites = {k: [s for s in v if s[1]] for k, v in container_mutation_sites().items()}
    sites = {k: v for k, v in sites.items() if v}
    out = {}
    for mname, mod in list(sys.modules.items()):
        if not (mname == 'py_ballisticcalc' or mname.startswith('py_ballisticcalc.')) or mod is None:
            continue
        for name, val in list(vars(mod).items()):
            if isinstance(val, (list, dict, set)) and name in sites and not name.startswith('__'):
                out[id(val)] = (mname, name, sites[name])
            if isinstance(val, type) and getattr(val, '__module__', '').startswith('py_ballisticcalc'):
                for an, av in list(vars(val).items()):
                    if isinstance(av, (list, dict, set)) and an in sites and not an.startswith('__'):
                        out[id(av)] = (f'{val.__module__}.{val.__qualname__}', an, sites[an])
    _SHARED = out
    return out
