"""Execution state, proof context, obligations."""
import itertools
import time
from collections import Counter
from fractions import Fraction

import z3

from .values import (SNum, SBool, SBV, SRec, SObj, SList, SFunc, SBound, SOpaque, SOpaqueStr,
                     Undefined, EngineError, mk_num, zval, zreal)


class Obl:
    def __init__(self, name, kind, role, hyps, goal, line=None, note=None):
        self.name = name
        self.kind = kind
        self.role = role        # 'clause' | 'route' | 'safety' | 'cover' | 'canary'
        self.hyps = hyps
        self.goal = goal
        self.line = line
        self.note = note
        self.expect = 'unsat'   # covers / canaries expect 'sat'
        self.result = None
        self.time = 0.0
        self.backend = None
        self.model = None
        self.smt2 = None

    @property
    def ok(self):
        return self.result == self.expect


class Ctx:
    """Per-task proof context: fresh names, uninterpreted functions with instantiated
    axioms, global assumptions (input shapes), collected obligations."""

    def __init__(self, task):
        self.task = task
        self.counter = itertools.count()
        self.axioms = []
        self.assumptions = []
        self.obls = []
        self.inputs = {}
        self.ufs = {}
        self.apps = {}
        self.trusted = Counter()
        self.dropped = Counter()
        self.functions_inlined = Counter()
        self.contracts_used = Counter()
        self.spec_depth = 0
        self.reveal_depth = 0
        self.opaque_ufs = {}
        self.path_count = 0
        self.concrete_math = False
        self.notes = []

    def fresh_name(self, base):
        return f'{base}!{next(self.counter)}'

    def fresh_real(self, base):
        return z3.Real(self.fresh_name(base))

    def fresh_int(self, base):
        return z3.Int(self.fresh_name(base))

    def fresh_bool(self, base):
        return z3.Bool(self.fresh_name(base))

    def input_const(self, name, sort):
        if name in self.inputs:
            raise EngineError(f'duplicate input symbol {name}')
        c = z3.Const(name, sort)
        self.inputs[name] = c
        return c

    def assume(self, f):
        self.assumptions.append(f)

    def axiom(self, f):
        self.axioms.append(f)

    def uf(self, name, *sorts):
        if name not in self.ufs:
            self.ufs[name] = z3.Function(name, *sorts)
        return self.ufs[name]

    def oblige(self, st, name, kind, role, goal, line=None, note=None, extra_hyps=()):
        if self.spec_depth:
            return None
        o = Obl(name, kind, role, list(st.pc) + list(extra_hyps), goal, line, note)
        o.qf_only = False
        self.obls.append(o)
        return o


class Frame:
    def __init__(self, fid, finfo, parent=None):
        self.fid = fid
        self.finfo = finfo
        self.parent = parent
        self.vars = {}
        self.globals_decl = set()


_fid = itertools.count(1)


class State:
    def __init__(self):
        self.pc = []
        self.frames = {}
        self.stack = []
        self.gl = {}          # (id(module dict), name) -> value : writes to module globals
        self.cls_over = {}    # (cls, attr) -> value : class attributes (PreferredUnits.x)
        self.lifted = {}      # id(live object) -> lifted mutable value
        self.old = None
        self.ghost = {}
        self.trace = []

    # -- frames -------------------------------------------------------
    def push(self, finfo, parent=None):
        f = Frame(next(_fid), finfo, parent)
        self.frames[f.fid] = f
        self.stack.append(f.fid)
        return f

    def pop(self):
        self.stack.pop()

    @property
    def frame(self):
        return self.frames[self.stack[-1]]

    def assume(self, f):
        if isinstance(f, bool):
            if not f:
                self.pc.append(z3.BoolVal(False))
            return
        self.pc.append(f)

    # -- cloning ------------------------------------------------------
    def clone(self):
        memo = {}
        s = State()
        s.pc = list(self.pc)
        s.stack = list(self.stack)
        for fid, f in self.frames.items():
            g = Frame(fid, f.finfo, f.parent)
            g.globals_decl = set(f.globals_decl)
            g.vars = {k: copy_value(v, memo) for k, v in f.vars.items()}
            s.frames[fid] = g
        s.gl = {k: copy_value(v, memo) for k, v in self.gl.items()}
        s.cls_over = {k: copy_value(v, memo) for k, v in self.cls_over.items()}
        s.lifted = {k: copy_value(v, memo) for k, v in self.lifted.items()}
        s.ghost = {k: copy_value(v, memo) for k, v in self.ghost.items()}
        s.old = self.old
        s.loop_heads = list(getattr(self, 'loop_heads', []))
        s.try_stack = list(getattr(self, 'try_stack', []))
        s.trace = list(self.trace)
        s._memo = memo
        return s

    def map_value(self, v):
        """translate a value of the state this one was cloned from"""
        return copy_value(v, self._memo)


def copy_value(v, memo):
    if isinstance(v, (SNum, SBool, SBV, int, Fraction, str, float, SOpaque, SOpaqueStr, Undefined)) or v is None:
        return v
    if isinstance(v, SObj):
        if v.oid in memo:
            return memo[v.oid]
        o = SObj.__new__(SObj)
        o.cls, o.oid, o.frozen, o.label = v.cls, v.oid, v.frozen, v.label
        o.described = getattr(v, 'described', False)
        memo[v.oid] = o
        o.fields = {k: copy_value(x, memo) for k, x in v.fields.items()}
        return o
    if isinstance(v, SList):
        if v.oid in memo:
            return memo[v.oid]
        o = SList.__new__(SList)
        o.oid, o.label, o.is_tuple, o.frozen = v.oid, v.label, v.is_tuple, v.frozen
        memo[v.oid] = o
        o.elem, o.length = v.elem, v.length
        o.items = None if v.items is None else [copy_value(x, memo) for x in v.items]
        return o
    if isinstance(v, SRec):
        return SRec(v.cls, {k: copy_value(x, memo) for k, x in v.vals.items()})
    if isinstance(v, SBound):
        return SBound(v.func, copy_value(v.selfv, memo))
    if isinstance(v, tuple):
        return tuple(copy_value(x, memo) for x in v)
    if isinstance(v, list):
        key = ('pylist', id(v))
        if key in memo:
            return memo[key]
        o = []
        memo[key] = o
        o.extend(copy_value(x, memo) for x in v)
        return o
    if isinstance(v, dict):
        key = ('pydict', id(v))
        if key in memo:
            return memo[key]
        o = type(v)() if type(v) is dict else {}
        memo[key] = o
        for k, x in v.items():
            o[k] = copy_value(x, memo)
        return o
    return v   # live classes, functions, modules, enum members, SFunc (immutable)
