"""Run-time check of a loop contract on the REAL function (bounded stand-in; DESIGN.md 3.8).

The clauses of a LoopContract (entry, invariants, step clauses with head(e), exceptional post-conditions)
are the very strings the VC generator proves.  Here they are evaluated by CPython while the real function
runs on a concrete witness: a sys.settrace line tracer takes the locals of the real frame each time the loop
head is reached (and when the frame raises), and the clause is evaluated on (head locals, end-of-body locals).
Nothing of the function is copied or re-implemented.  This finds FAILING INPUTS for changes whose
proof obligation the solver leaves open (unknown); it proves nothing and is reported as 'bounded'.

Pure Python, no z3: importable under /venv/bin/python, so replay scripts use the same code."""
import ast
import inspect
import sys

from . import rt
from .replay_rewrite import rewrite_clause_full


class Monitor:
    def __init__(self, func, loop_index, clauses, ns, exc_types=()):
        """clauses: list of (kind, label, src) with kind in entry | inv | step | raise | post"""
        self.func = inspect.unwrap(func)
        self.code = self.func.__code__
        self.ns = ns
        self.exc_types = tuple(exc_types)
        src = inspect.getsource(self.func)
        import textwrap
        tree = ast.parse(textwrap.dedent(src))
        loops = [n for n in ast.walk(tree.body[0]) if isinstance(n, (ast.While, ast.For))]
        loops.sort(key=lambda n: (n.lineno, n.col_offset))
        self.loop_line = self.code.co_firstlineno + loops[loop_index].lineno - 1
        self.compiled = []
        self.olds = {}
        self.old_vals = {}
        for kind, label, src_ in clauses:
            try:
                py, heads, olds = rewrite_clause_full(src_)
                self.olds[(kind, label)] = [compile(o, f'<old of {label}>', 'eval') for o in olds]
                self.compiled.append((kind, label, src_, compile(py, f'<{label}>', 'eval'),
                                      [compile(h, f'<head of {label}>', 'eval') for h in heads]))
            except SyntaxError as e:
                self.compiled.append((kind, label, src_, None, str(e)))
        self.stats = {(k, l): {'evaluated': 0, 'not_evaluable': 0, 'failure': None, 'error': None}
                      for k, l, *_ in self.compiled}
        self.head = None
        self.iteration = 0
        self.frame = None

    # -- evaluation ------------------------------------------------------------------------------------------------
    def _eval(self, kinds, env, head_env, extra=None):
        for kind, label, src, code, heads in self.compiled:
            if kind not in kinds:
                continue
            st = self.stats[(kind, label)]
            if code is None:
                st['error'] = heads
                continue
            if st['failure'] is not None:
                continue
            e = dict(self.ns)
            e.update(env)
            if extra:
                e.update(extra)
            try:
                for k, ov in enumerate(self.old_vals.get((kind, label), ())):
                    if isinstance(ov, Exception):
                        raise ov
                    e[f'__old_{k}'] = ov
                if heads:
                    if head_env is None:
                        continue
                    he = dict(self.ns)
                    he.update(head_env)
                    for k, hc in enumerate(heads):
                        e[f'__head_{k}'] = eval(hc, he)
                ok = bool(eval(code, e))
            except NotImplementedError:
                st['not_evaluable'] += 1      # uninterpreted specification function
                continue
            except Exception as ex:  # noqa  (a local the clause names does not exist in this version of the code, ...)
                st['not_evaluable'] += 1
                st['error'] = f'{type(ex).__name__}: {ex}'[:200]
                continue
            st['evaluated'] += 1
            if not ok:
                st['failure'] = {'iteration': self.iteration, 'kind': kind,
                                 'locals': {k: _show(v) for k, v in env.items() if k in _names(src)},
                                 'head': {k: _show(v) for k, v in (head_env or {}).items() if k in _names(src)}}

    # -- tracing ---------------------------------------------------------------------------------------------------
    def _global(self, frame, event, arg):
        if frame.f_code is self.code and self.frame is None:
            self.frame = frame
            # old(e): evaluated now, on the arguments as they are at function entry
            env = dict(self.ns)
            env.update(frame.f_locals)
            for key, codes in self.olds.items():
                vals = []
                for oc in codes:
                    try:
                        vals.append(eval(oc, env))
                    except Exception as ex:  # noqa
                        vals.append(ex)
                self.old_vals[key] = vals
            return self._local
        return None

    def _local(self, frame, event, arg):
        if frame is not self.frame:
            return None
        if event == 'line':
            self._pending_exc = None      # an exception seen earlier was handled inside the frame
        if event == 'line' and frame.f_lineno == self.loop_line:
            env = dict(frame.f_locals)
            if self.head is None:
                self._eval(('entry', 'inv'), env, None)
            else:
                self._eval(('step', 'inv'), env, self.head)
            self.head = env
            self.iteration += 1
        elif event == 'exception':
            et, ev, tb = arg
            # only where the exception is raised by this frame or propagates out of it: evaluated at 'return'
            self._pending_exc = ev
        elif event == 'return':
            exc = getattr(self, '_pending_exc', None)
            if arg is None and exc is not None and isinstance(exc, self.exc_types):
                self._eval(('raise',), dict(frame.f_locals), self.head, {'exc': exc})
            elif exc is None or arg is not None:
                self._eval(('post',), dict(frame.f_locals), self.head, {'result': arg})
        return self._local

    def run(self, args):
        """call the real function under the monitor; returns ('return', value) | ('raise', exception)"""
        self.head, self.iteration, self.frame, self._pending_exc = None, 0, None, None
        old = sys.gettrace()
        sys.settrace(self._global)
        try:
            try:
                return 'return', self.func(**args)
            except Exception as e:  # noqa
                return 'raise', e
        finally:
            sys.settrace(old)


def _names(src):
    try:
        return {n.id for n in ast.walk(ast.parse(src, mode='eval')) if isinstance(n, ast.Name)}
    except SyntaxError:
        return set()


def _show(v):
    r = repr(v)
    return r if len(r) < 160 else r[:157] + '...'


def namespace():
    """names available to clauses natively: the specification helpers and the specification functions"""
    import importlib
    ns = {k: getattr(rt, k) for k in rt.SPEC_NAMES}
    ns['is_nan'] = rt.is_nan
    import math
    ns['math'] = math
    ns['min'], ns['max'], ns['abs'], ns['len'] = min, max, abs, len
    sf = importlib.import_module('contracts.specfn')
    for k in dir(sf):
        if not k.startswith('_'):
            ns.setdefault(k, getattr(sf, k))
    import py_ballisticcalc
    ns['py_ballisticcalc'] = py_ballisticcalc
    return ns
