"""Clause text -> natively evaluable Python (z3-free): head(e) -> pre-evaluated name; a == b between computed
numbers -> eq(a, b) (clauses are exact identities over the reals, natively checked to within rt.REPLAY_REL_TOL)."""
import ast


class _Rw(ast.NodeTransformer):
    def __init__(self):
        self.heads = []
        self.olds = []

    def visit_Compare(self, node):
        node = self.generic_visit(node)
        if len(node.ops) == 1 and isinstance(node.ops[0], (ast.Eq, ast.NotEq)):
            a, b = node.left, node.comparators[0]
            if not any(isinstance(x, ast.Constant) and isinstance(x.value, (str, type(None))) for x in (a, b)):
                call = ast.Call(func=ast.Name(id='eq', ctx=ast.Load()), args=[a, b], keywords=[])
                if isinstance(node.ops[0], ast.NotEq):
                    return ast.UnaryOp(op=ast.Not(), operand=call)
                return call
        return node

    def visit_Call(self, node):
        if isinstance(node.func, ast.Name) and node.func.id == 'head' and len(node.args) == 1:
            k = len(self.heads)
            self.heads.append(ast.unparse(node.args[0]))
            return ast.Name(id=f'__head_{k}', ctx=ast.Load())
        if isinstance(node.func, ast.Name) and node.func.id == 'old' and len(node.args) == 1:
            k = len(self.olds)
            self.olds.append(ast.unparse(node.args[0]))
            return ast.Name(id=f'__old_{k}', ctx=ast.Load())
        return self.generic_visit(node)


def rewrite_clause(src):
    tree = ast.parse(src.strip(), mode='eval')
    rw = _Rw()
    tree = rw.visit(tree)
    ast.fix_missing_locations(tree)
    return ast.unparse(tree), rw.heads


def rewrite_clause_full(src):
    """(python source, head expressions, old expressions)"""
    tree = ast.parse(src.strip(), mode='eval')
    rw = _Rw()
    tree = rw.visit(tree)
    ast.fix_missing_locations(tree)
    return ast.unparse(tree), rw.heads, rw.olds
