"""Guards against vacuity and against an unsound encoding (DESIGN.md 3.10).

* native witness: concrete inputs (from a solver model of the quantifier-free part of the
  hypotheses, or seeded random values) on which the contract's requires clauses hold when
  evaluated by CPython on the real objects -> the precondition is not contradictory;
* CPython cross-check: the engine, run as an interpreter on those same concrete inputs
  (loops unrolled, math evaluated in binary64), must produce the value / exception that the
  real function produces in CPython, and the contract's clauses evaluated natively must
  hold on them (a clause that fails natively on the unchanged tree is either a defect of
  the code or of the contract - never silently ignored)."""
import enum
import math
import types
import random
import warnings
from fractions import Fraction

import z3

from . import rt
from .contract import ModelEv, RandomEv, Shared, Const
from .replay import module_name, rewrite_old
from .values import (SNum, SBool, SBV, SRec, SObj, SList, SOpaque, Raised, EngineError)


def native_namespace(task):
    import importlib
    import py_ballisticcalc
    M = importlib.import_module(module_name(task.c.relfile))
    ns = dict(vars(py_ballisticcalc))
    ns.update(vars(M))
    ns.update({k: getattr(rt, k) for k in rt.SPEC_NAMES})
    ns['_mk'] = rt._mk
    ns['Struct'] = rt.Struct
    ns['math'] = math
    try:
        import contracts.specfn as sf
        ns.update({k: v for k, v in vars(sf).items() if not k.startswith('__')})
    except ImportError:
        pass
    ns['M'] = M
    ns['py_ballisticcalc'] = py_ballisticcalc
    return ns


def native_args(task, ev, ns):
    args = {}
    for n, sh in task.inst.items():
        if isinstance(sh, Shared):
            continue
        args[n] = eval(sh.native(n, ev), ns)
    for n, sh in task.inst.items():
        if isinstance(sh, Shared):
            args[n] = args[sh.other]
    return args


def native_callable(task, ns):
    c = task.c
    parts = c.qualname.split('.')
    obj = ns['M']
    if len(parts) == 1:
        return getattr(obj, parts[0])
    for p in parts[:-1]:
        obj = getattr(obj, p)
    raw = obj.__dict__[parts[-1]]
    if isinstance(raw, property):
        return raw.fset if c.which == 'setter' else raw.fget
    if isinstance(raw, (staticmethod, classmethod)):
        return raw.__func__
    return raw


def call_names(task):
    a = task.info.node.args
    params = [p.arg for p in a.posonlyargs + a.args + a.kwonlyargs]
    return [p for p in params if p in task.inst]


def requires_ok(task, args, ns):
    env = dict(ns)
    env.update(args)
    for cl in task.c.requires:
        try:
            if not eval(cl.src, env):
                return False
        except Exception:  # noqa
            return False
    return True


class NativeTimeout(Exception):
    pass


def _alarm(signum, frame):
    raise NativeTimeout()


def native_run(task, args, ns, seconds=5):
    """call the real function; a run longer than `seconds` is abandoned (NativeTimeout propagates to the caller,
    which skips the witness)"""
    import signal
    f = native_callable(task, ns)
    old = signal.signal(signal.SIGALRM, _alarm)
    signal.alarm(seconds)
    try:
        with warnings.catch_warnings():
            warnings.simplefilter('ignore')
            try:
                return 'return', f(*[args[n] for n in call_names(task)])
            except NativeTimeout:
                raise
            except Exception as e:  # noqa
                return 'raise', e
    finally:
        signal.alarm(0)
        signal.signal(signal.SIGALRM, old)


def find_witnesses(task, seed, want=3, tries=400):
    """list of evaluators (ModelEv/RandomEv) whose native inputs satisfy requires"""
    ns = native_namespace(task)
    out = []
    rng = random.Random(seed)
    for k in range(tries):
        ev = RandomEv(random.Random(rng.random()), sorted_lists=(k % 2 == 0))
        try:
            import copy
            args = native_args(task, ev, ns)
        except Exception:  # noqa
            continue
        if task.c.setup is not None and getattr(task.c.setup, 'native', None):
            task.c.setup.native(args, ns)
        if requires_ok(task, args, ns):
            out.append(ev)
            if len(out) >= want:
                break
    return out, ns



def _map_floats(v, fn, memo=None):
    """deep copy of a native value with fn applied to every float leaf"""
    if memo is None:
        memo = {}
    if isinstance(v, bool) or v is None or isinstance(v, (int, str, Fraction)):
        return v
    if isinstance(v, float):
        return fn(v)
    if id(v) in memo:
        return memo[id(v)]
    if isinstance(v, tuple) and hasattr(v, '_fields'):
        return type(v)(*[_map_floats(x, fn, memo) for x in v])
    if isinstance(v, tuple):
        return tuple(_map_floats(x, fn, memo) for x in v)
    if isinstance(v, list):
        out = []
        memo[id(v)] = out
        out.extend(_map_floats(x, fn, memo) for x in v)
        return out
    if isinstance(v, dict):
        out = {}
        memo[id(v)] = out
        for k, x in v.items():
            out[k] = _map_floats(x, fn, memo)
        return out
    if isinstance(v, (type, types.FunctionType, types.ModuleType)) or isinstance(v, enum.Enum):
        return v
    if hasattr(v, '__dict__'):
        try:
            o = object.__new__(type(v))
        except Exception:  # noqa
            return v
        memo[id(v)] = o
        for k, x in vars(v).items():
            object.__setattr__(o, k, _map_floats(x, fn, memo))
        return o
    return v


def native_value_agree(a, b, tol=1e-7):
    """two native results agree (numbers to tol, containers and objects structurally)"""
    if isinstance(a, bool) or isinstance(b, bool) or a is None or b is None or isinstance(a, str):
        return a == b
    if isinstance(a, (int, float, Fraction)) and isinstance(b, (int, float, Fraction)):
        x, y = float(a), float(b)
        if math.isnan(x) or math.isnan(y):
            return math.isnan(x) and math.isnan(y)
        return abs(x - y) <= tol * max(1.0, abs(x), abs(y))
    if isinstance(a, (list, tuple)) and isinstance(b, (list, tuple)):
        return len(a) == len(b) and all(native_value_agree(x, y, tol) for x, y in zip(a, b))
    if isinstance(a, dict) and isinstance(b, dict):
        return a.keys() == b.keys() and all(native_value_agree(a[k], b[k], tol) for k in a)
    if hasattr(a, '__dict__') and hasattr(b, '__dict__') and type(a) is type(b):
        return all(native_value_agree(x, vars(b).get(k), tol) for k, x in vars(a).items())
    try:
        return a == b
    except Exception:  # noqa
        return False


def ill_conditioned(task, args, ns, kind, val, tol=1e-7):
    """is the REAL function itself so sensitive at this witness that a binary64 run and an exact (A-REAL) run cannot
    be compared?  The native function is re-run on inputs perturbed by a relative 1e-13 (a few hundred ulps); if
    its own result moves by more than the comparison tolerance (or its outcome kind changes) the witness says
    nothing about the engine and is skipped."""
    rng = random.Random(12345)
    for _ in range(2):
        try:
            pargs = _map_floats(args, lambda x: x * (1.0 + rng.choice((-1, 1)) * 1e-13))
            k2, v2 = native_run(task, pargs, ns)
        except Exception:  # noqa
            return False
        if k2 != kind:
            return True
        if kind == 'return' and not native_value_agree(val, v2, tol):
            return True
    return False

def values_agree(ev_val, nat, tol=1e-7):
    """engine value vs native python value"""
    if isinstance(ev_val, SOpaque):
        return True
    if ev_val is None or nat is None:
        return ev_val is None and nat is None
    if isinstance(ev_val, bool) or isinstance(nat, bool):
        return bool(ev_val) == bool(nat) and not isinstance(ev_val, (SNum,))
    if isinstance(ev_val, (int, Fraction)):
        if isinstance(nat, (int, float)):
            a, b = float(ev_val), float(nat)
            if math.isnan(b):
                return False
            return abs(a - b) <= tol * max(1.0, abs(a), abs(b))
        return False
    if isinstance(ev_val, SRec):
        return isinstance(nat, tuple) and hasattr(nat, '_fields') and \
            all(values_agree(ev_val.vals[k], getattr(nat, k), tol) for k in ev_val.vals)
    if isinstance(ev_val, SObj):
        if type(nat).__name__ != ev_val.cls.__name__:
            return False
        for k, v in ev_val.fields.items():
            if k.startswith('__'):
                continue
            if not hasattr(nat, k):
                return False
            if not values_agree(v, getattr(nat, k), tol):
                return False
        return True
    if isinstance(ev_val, SList):
        if not ev_val.concrete or not isinstance(nat, (list, tuple)) or len(nat) != len(ev_val.items):
            return False
        return all(values_agree(a, b, tol) for a, b in zip(ev_val.items, nat))
    if isinstance(ev_val, tuple):
        return isinstance(nat, tuple) and len(nat) == len(ev_val) and \
            all(values_agree(a, b, tol) for a, b in zip(ev_val, nat))
    if isinstance(ev_val, dict):
        return isinstance(nat, dict) and ev_val.keys() == nat.keys() and \
            all(values_agree(ev_val[k], nat[k], tol) for k in ev_val)
    if isinstance(ev_val, str):
        return ev_val == nat
    try:
        return ev_val == nat or ev_val is nat
    except Exception:  # noqa
        return False


def engine_run_concrete(task_factory, ev):
    """run the engine as an interpreter on concrete inputs; returns ('return', v) | ('raise', cls)"""
    task = task_factory()
    task.ctx.concrete_math = True
    task.ip.modular = False
    task.ctx.spec_depth = 0
    vals = {}
    task.ctx.ip = task.ip
    task.ctx.finfo0 = task.info
    ev.ctx = task.ctx
    for n, sh in task.inst.items():
        if isinstance(sh, Shared):
            continue
        vals[n] = sh.engine(n, ev)
    st = task.build_entry(values=vals)
    # obligations generated in this mode are irrelevant; collect outcomes
    outs = list(task.ip.exec_block(task.info.node.body, st))
    if len(outs) != 1:
        return 'fork', len(outs), task
    s, flow = outs[0]
    if flow is None:
        return 'return', None, task
    if flow[0] == 'return':
        return 'return', flow[1], task
    if flow[0] == 'raise':
        return 'raise', flow[1].cls, task
    return flow[0], None, task


def cross_check(task_factory, seed, want=3):
    """returns dict(witnesses, checked, mismatches:[...], clause_failures:[...])"""
    task = task_factory()
    res = {'witnesses': 0, 'checked': 0, 'mismatches': [], 'clause_failures': [], 'skipped': None}
    if task.c.witnesses:
        # explicit native witnesses (objects produced by the real constructors / initialisers): the precondition
        # must hold on them natively and the real function must run to completion
        ns = native_namespace(task)
        for w in task.c.witnesses:
            try:
                args = w(ns)
                if task.inst and any(isinstance(sh, Const) and n in args and args[n] != sh.v
                                     for n, sh in task.inst.items() if hasattr(sh, 'v')):
                    continue
                if not requires_ok(task, args, ns):
                    res['clause_failures'].append({'clause': 'requires', 'inputs': 'explicit witness'})
                    continue
                kind, val = native_run(task, args, ns, seconds=30)
                res['witnesses'] += 1
            except NativeTimeout:
                continue
            except Exception as e:  # noqa
                res['skipped'] = f'explicit witness failed: {type(e).__name__}: {e}'
        return res
    try:
        evs, ns = find_witnesses(task, seed, want)
    except Exception as e:  # noqa
        res['skipped'] = f'witness generation failed: {type(e).__name__}: {e}'
        return res
    res['witnesses'] = len(evs)
    import copy
    for ev in evs:
        args = native_args(task, ev, ns)
        if task.c.setup is not None and getattr(task.c.setup, 'native', None):
            task.c.setup.native(args, ns)
        try:
            old_args = copy.deepcopy(args)
        except Exception:  # noqa
            old_args = args
        try:
            kind, val = native_run(task, args, ns)
        except NativeTimeout:
            continue
        if getattr(task.c, 'heavy', False):
            res['checked'] += 0
            continue      # heavy loops: the engine is not run as an interpreter (too slow); witnesses only
        try:
            ekind, eval_, etask = engine_run_concrete(task_factory, ev)
        except EngineError as e:
            if 'unrolling bound exceeded' in str(e):
                # the concrete run of a loop is longer than the interpreter's budget: witness skipped, not a mismatch
                res.setdefault('skipped_witnesses', []).append('concrete loop longer than the interpreter budget')
                continue
            res['mismatches'].append({'inputs': repr(old_args)[:300], 'engine': f'EngineError: {e}', 'native': kind})
            continue
        res['checked'] += 1
        ok = True
        if ekind != kind:
            ok = False
        elif kind == 'return':
            ok = values_agree(eval_, val)
        else:
            ok = isinstance(val, eval_) if isinstance(eval_, type) else False
        if not ok:
            if ill_conditioned(task, old_args, ns, kind, val):
                # binary64 vs exact arithmetic at an ill-conditioned input (A-REAL), not an engine/CPython disagreement
                res['checked'] -= 1
                res.setdefault('skipped_witnesses', []).append('ill-conditioned input: the native result moves by more '
                                                               'than the tolerance under a 1e-13 relative perturbation')
                continue
            res['mismatches'].append({'inputs': repr(old_args)[:300], 'engine': f'{ekind}: {eval_!r}'[:200],
                                      'native': f'{kind}: {val!r}'[:200]})
            continue
        # contract clauses natively (they must hold on the unchanged tree; reported separately)
        env = dict(ns)
        env.update(args)
        env['result'] = val if kind == 'return' else None
        old_env = dict(ns)
        old_env.update(old_args)
        if kind == 'return':
            for cl in task.c.ensures:
                try:
                    src, olds = rewrite_old(cl.src)
                    for k, osrc in enumerate(olds):
                        env[f'__old_{k}'] = eval(osrc, old_env)
                    if not eval(src, env):
                        res['clause_failures'].append({'clause': cl.label, 'inputs': repr(old_args)[:300]})
                except Exception as e:  # noqa
                    res['clause_failures'].append({'clause': cl.label, 'error': f'{type(e).__name__}: {e}',
                                                   'inputs': repr(old_args)[:200]})
    return res


def native_clause_violated(task, ns, args, kind, clause_src, lenient=False):
    """run the real function on args and evaluate the clause natively: True if violated.
    lenient: an exception the contract does not list, or a clause that cannot be evaluated natively, is NOT taken
    as a violation (used when the inputs were not produced from a counter-model: a witness object assembled field
    by field may be inconsistent in ways the real constructors exclude)"""
    import copy
    try:
        old_args = copy.deepcopy(args)
    except Exception:  # noqa
        old_args = args
    okind, val = native_run(task, args, ns)
    env = dict(ns)
    env.update(args)
    old_env = dict(ns)
    old_env.update(old_args)
    c = task.c
    excs = list(c.raises)

    def permitted(e):
        return any(k.__name__ in excs for k in type(e).__mro__)
    if kind.startswith('exc-post:'):
        # exceptional postcondition: only when the real code raises that exception
        en = kind.split(':', 1)[1]
        if okind != 'raise' or not any(k.__name__ == en for k in type(val).__mro__):
            return False
        env['exc'] = val
        env['result'] = None
        try:
            src, olds = rewrite_old(clause_src)
            for k, osrc in enumerate(olds):
                env[f'__old_{k}'] = eval(osrc, old_env)
            return not eval(src, env)
        except NotImplementedError:
            return False
        except Exception:  # noqa
            return not lenient
    if kind == 'post':
        if okind == 'raise':
            return (not permitted(val)) and not lenient
        env['result'] = val
        try:
            src, olds = rewrite_old(clause_src)
            for k, osrc in enumerate(olds):
                env[f'__old_{k}'] = eval(osrc, old_env)
            return not eval(src, env)
        except NotImplementedError:
            return False          # clause mentions an uninterpreted specification function
        except Exception:  # noqa
            return not lenient
    if kind == 'raises':
        for en, cond in c.raises.items():
            if cond is None:
                continue
            try:
                want = bool(eval(cond, old_env))
            except Exception:  # noqa
                continue
            got = okind == 'raise' and any(k.__name__ == en for k in type(val).__mro__)
            if want != got:
                return True
        return okind == 'raise' and not permitted(val) and not lenient
    if kind in ('nodiv0', 'index', 'domain'):
        return okind == 'raise' and not permitted(val)
    if kind == 'frame':
        from .rtframe import deep_diff
        return bool(deep_diff(old_args, args, list(c.modifies or [])))
    return False


def native_search(task, kind, clause_src, seed, tries=600, lenient=False, history=True):
    """seeded search for a concrete input on which the real code violates the clause.
    Returns {param: python-source} or None.

    history: every other try is a two-call history in the same process - the previous input A is run first (its
    outcome ignored), then B = A with a random subset of the parameters re-drawn (the others rebuilt from the same
    source text, i.e. equal values in fresh objects), and the clause is checked on B.  A contract quantifies over the
    state the function is called in; state hidden from the parameter shapes (a module- or class-level memo keyed on
    part of the arguments) shows up exactly on such pairs.  The returned dict then carries the earlier call under
    '__prelude__' (replayed first by the replay script)."""
    ns = native_namespace(task)
    rng = random.Random(seed * 7919 + 13)
    prev = None

    def build(srcs):
        args = {n: eval(s, ns) for n, s in srcs.items()}
        for n, sh in task.inst.items():
            if isinstance(sh, Shared):
                args[n] = args[sh.other]
        if task.c.setup is not None and getattr(task.c.setup, 'native', None):
            task.c.setup.native(args, ns)
        return args
    for k in range(tries):
        ev = RandomEv(random.Random(rng.random()), sorted_lists=(k % 2 == 0))
        try:
            srcs = {n: sh.native(n, ev) for n, sh in task.inst.items() if not isinstance(sh, Shared)}
            prelude = None
            if history and prev is not None and k % 2 == 1 and len(srcs) >= 2:
                kept = [n for n in srcs if rng.random() < 0.5]
                if kept and len(kept) < len(srcs):
                    for n in kept:
                        srcs[n] = prev[n]
                    prelude = prev
            args = build(srcs)
        except Exception:  # noqa
            continue
        if not requires_ok(task, args, ns):
            continue
        if prelude is not None:
            try:
                pargs = build(prelude)
                if requires_ok(task, pargs, ns):
                    native_run(task, pargs, ns)
                else:
                    prelude = None
            except NativeTimeout:
                continue
            except Exception:  # noqa
                prelude = None
        else:
            prev = srcs
        try:
            if native_clause_violated(task, ns, args, kind, clause_src, lenient=lenient):
                if prelude is not None:
                    srcs = dict(srcs)
                    srcs['__prelude__'] = [prelude]
                return srcs
        except NativeTimeout:
            continue
        except Exception:  # noqa
            continue
    return None
