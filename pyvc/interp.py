"""Symbolic executor over the Python ``ast`` of repository functions (DESIGN.md 3.1-3.5).

``eval`` / ``exec`` are generators: every yielded item is one feasible continuation
(path).  ``eval`` yields ``(value, state)`` where value may be ``Raised``; ``exec_*``
yield ``(state, flow)`` with flow in None | ('return', v) | ('raise', exc) | ('break',) |
('continue',).  A state object must not be used after it has been yielded onward, except
by the branch that clones it first.
"""
import ast
import builtins
import functools
import math
import types
import typing
import enum
from fractions import Fraction

import z3

from . import mathmodel as mm
from .mathmodel import PyZeroDivision, PyValueError
from .state import State, Ctx, Frame, copy_value
from .values import (SNum, SBool, SBV, SRec, SObj, SList, SFunc, SBound, SOpaque, SOpaqueStr, Raised, Undefined,
                     EngineError, truth, b_not, b_and, b_or, b_implies, mk_num, mk_bool, zval, zreal, zbool,
                     is_sym, is_num, lift_float, same_value, num_is_int)

CMP = {ast.Lt: '<', ast.LtE: '<=', ast.Gt: '>', ast.GtE: '>=', ast.Eq: '==', ast.NotEq: '!='}
CMP_DUNDER = {'<': '__lt__', '<=': '__le__', '>': '__gt__', '>=': '__ge__', '==': '__eq__', '!=': '__ne__'}
CMP_REFLECT = {'<': '>', '<=': '>=', '>': '<', '>=': '<=', '==': '==', '!=': '!='}
BIN = {ast.Add: '+', ast.Sub: '-', ast.Mult: '*', ast.Div: '/', ast.FloorDiv: '//', ast.Mod: '%', ast.Pow: '**'}
BIN_DUNDER = {ast.Add: 'add', ast.Sub: 'sub', ast.Mult: 'mul', ast.Div: 'truediv', ast.LShift: 'lshift',
              ast.RShift: 'rshift', ast.BitOr: 'or', ast.BitAnd: 'and', ast.FloorDiv: 'floordiv', ast.Mod: 'mod',
              ast.Pow: 'pow'}

NOOP_CALL_PREFIXES = ('logger.', 'warnings.')


def is_namedtuple_class(c):
    return isinstance(c, type) and issubclass(c, tuple) and hasattr(c, '_fields')


def class_lookup(cls, name):
    for k in cls.__mro__:
        if name in k.__dict__:
            return k.__dict__[name], k
    raise AttributeError(name)


class PyRaise(Exception):
    """internal: an intrinsic wants to raise a Python exception in the analysed program"""

    def __init__(self, cls, msg=''):
        self.cls = cls
        self.msg = msg


class Interp:
    def __init__(self, ctx, index, contracts=None, spec_ns=None):
        self.ctx = ctx
        self.index = index
        self.contracts = contracts or {}
        self.spec_ns = spec_ns or {}
        self.loop_stack = []
        self.max_unroll = 400
        self.modular = True
        self.call_depth = 0
        self.active_contract = None     # Contract of the function under verification (loop contracts by key)
        self.ghost_hooks = {}
        self.force_unroll = False
        self.prune_forks = False

    def feasible(self, st, timeout_ms=2000):
        """cheap feasibility test used to prune forks when loops are unrolled symbolically"""
        s = z3.Solver()
        s.set('timeout', timeout_ms)
        s.set('arith.nl', False)        # see fork(): linear reasoning only, every 'unsat' stays sound
        for h in self.ctx.assumptions + self.ctx.axioms + st.pc:
            s.add(h)
        return s.check() != z3.unsat

    # ==================================================================
    # helpers
    def err(self, node, msg):
        ln = getattr(node, 'lineno', '?')
        raise EngineError(f'{msg} (line {ln})')

    def fork(self, st, cond):
        """cond: bool | SBool.  Yields (truthvalue, state) for each feasible side."""
        if isinstance(cond, bool):
            yield cond, st
            return
        t = cond.t
        if self.prune_forks and not self.ctx.spec_depth:
            # opt-in (per contract): drop a side whose path condition is refuted within a small budget
            sides = []
            for side, f in ((True, t), (False, z3.Not(t))):
                sv = z3.Solver()
                sv.set('timeout', 150)
                # linear reasoning only: z3's nonlinear engine (algebraic numbers) does not poll its timeout and was
                # seen to spin for minutes on a 150 ms budget; products are then uninterpreted, which keeps every
                # 'unsat' answer sound and at worst keeps an infeasible side alive
                sv.set('arith.nl', False)
                for h in self.ctx.assumptions + self.ctx.axioms + st.pc:
                    sv.add(h)
                sv.add(f)
                if sv.check() != z3.unsat:
                    sides.append((side, f))
            if len(sides) == 1:
                st.pc.append(sides[0][1])
                yield sides[0][0], st
                return
            if not sides:
                return
        s2 = st.clone()
        st.pc.append(t)
        s2.pc.append(z3.Not(t))
        yield True, st
        yield False, s2

    def truthy(self, v, st):
        """truthiness that may need __bool__/__len__ of an object: generator of (bool|SBool, st)"""
        if isinstance(v, SObj):
            for d in ('__bool__', '__len__'):
                try:
                    f, _ = class_lookup(v.cls, d)
                except AttributeError:
                    continue
                if isinstance(f, types.FunctionType):
                    for r, s in self.call_value(SBound(f, v), [], {}, st, None):
                        if isinstance(r, Raised):
                            yield r, s
                        else:
                            yield truth(r), s
                    return
            yield True, st
            return
        yield truth(v), st

    def make_exc(self, cls, args=(), st=None):
        e = SObj(cls, {'args': tuple(args)})
        return e

    def raise_py(self, cls, msg=''):
        return Raised(self.make_exc(cls, (msg,)))

    # ==================================================================
    # name resolution
    def lookup(self, name, st, node=None):
        f = st.frame
        g = f
        while g is not None:
            if name in g.vars and name not in g.globals_decl:
                v = g.vars[name]
                if isinstance(v, Undefined):
                    self.err(node, f'use of local {name} that is only assigned inside a cut loop')
                return v
            g = st.frames[g.parent] if g.parent is not None else None
        if name in self.spec_ns and self.ctx.spec_depth:
            return self.spec_ns[name]
        gd = f.finfo.globals
        key = (id(gd), name)
        if key in st.gl:
            return st.gl[key]
        if name in gd:
            return self.lift(gd[name], st)
        if name in self.spec_ns:
            return self.spec_ns[name]
        if hasattr(builtins, name):
            return getattr(builtins, name)
        self.err(node, f'unbound name {name}')

    def lift(self, v, st):
        """live Python object -> engine value"""
        if isinstance(v, float):
            return lift_float(v)
        if v is None or isinstance(v, (bool, int, str, Fraction, types.ModuleType, types.FunctionType,
                                        types.BuiltinFunctionType, type, SNum, SBool, SBV, SRec, SObj, SList,
                                        SFunc, SBound, SOpaque, SOpaqueStr, types.MethodType)):
            return v
        if isinstance(v, tuple) and not hasattr(v, '_fields'):
            return tuple(self.lift(x, st) for x in v)
        if isinstance(v, tuple):
            return SRec(type(v), {k: self.lift(getattr(v, k), st) for k in v._fields})
        if isinstance(v, (list, dict, set)):
            k = id(v)
            from .scan import shared_mutable_roots
            hit = shared_mutable_roots().get(k)
            if hit is not None:
                # a module-/class-level container that package code mutates inside functions: what it holds when the
                # function under contract is called is whatever an arbitrary call history left there, NOT its
                # import-time content - refusing is the only sound answer the engine has (no symbolic dictionaries)
                where, name, sites = hit
                raise EngineError(f'shared mutable state: {where}.{name} is a module/class-level container mutated at '
                                  f'{sites[0][0]}:{sites[0][2]} ({sites[0][1]}); the function reads or writes state that '
                                  f'earlier calls may have left there (not a function of its arguments)')
            if isinstance(v, set):
                return v
            if k not in st.lifted:
                if isinstance(v, list):
                    o = SList(items=[self.lift(x, st) for x in v], label=f'global@{k}')
                else:
                    o = {kk: self.lift(x, st) for kk, x in v.items()}
                st.lifted[k] = o
            return st.lifted[k]
        from py_ballisticcalc.unit import AbstractDimension
        if isinstance(v, AbstractDimension):
            k = id(v)
            if k not in st.lifted:
                st.lifted[k] = SObj(type(v), {'_value': lift_float(v._value), '_defined_units': v._defined_units})
            return st.lifted[k]
        if isinstance(v, (typing._GenericAlias, typing._SpecialForm)) or type(v).__module__ == 'typing':
            return v
        return v     # any other live object is kept as it is (only identity / attribute access is possible on it)

    def assign_name(self, name, v, st):
        f = st.frame
        if name in f.globals_decl:
            st.gl[(id(f.finfo.globals), name)] = v
        else:
            f.vars[name] = v

    # ==================================================================
    # expressions
    def eval(self, node, st):
        m = getattr(self, 'e_' + type(node).__name__, None)
        if m is None:
            self.err(node, f'expression {type(node).__name__} outside the subset')
        yield from m(node, st)

    def eval_many(self, nodes, st, i=0, acc=()):
        if i == len(nodes):
            yield list(acc), st
            return
        for v, s in self.eval(nodes[i], st):
            if isinstance(v, Raised):
                yield v, s
            else:
                yield from self.eval_many(nodes, s, i + 1, acc + (v,))

    def e_Constant(self, node, st):
        v = node.value
        if isinstance(v, float):
            v = Fraction(v)
        yield v, st

    def e_Name(self, node, st):
        yield self.lookup(node.id, st, node), st

    def e_Tuple(self, node, st):
        for vs, s in self.eval_many(node.elts, st):
            yield (vs if isinstance(vs, Raised) else tuple(vs)), s

    def e_List(self, node, st):
        for vs, s in self.eval_many(node.elts, st):
            yield (vs if isinstance(vs, Raised) else SList(items=list(vs))), s

    def e_Dict(self, node, st):
        if any(k is None for k in node.keys):
            self.err(node, 'dict unpacking')
        for ks, s in self.eval_many(node.keys, st):
            if isinstance(ks, Raised):
                yield ks, s
                continue
            for vs, s2 in self.eval_many(node.values, s):
                if isinstance(vs, Raised):
                    yield vs, s2
                else:
                    yield dict(zip(ks, vs)), s2

    def e_JoinedStr(self, node, st):
        # f-string: contained expressions are evaluated for their effects, the text is opaque
        exprs = [v.value for v in node.values if isinstance(v, ast.FormattedValue)]
        try:
            for vs, s in self.eval_many(exprs, st):
                if isinstance(vs, Raised):
                    yield vs, s
                else:
                    yield SOpaque('fstring'), s
        except EngineError:
            self.ctx.dropped['f-string contents'] += 1
            yield SOpaque('fstring'), st

    def e_Lambda(self, node, st):
        yield SFunc(node, st.frame.fid, st.frame.finfo, '<lambda>'), st

    def e_NamedExpr(self, node, st):
        for v, s in self.eval(node.value, st):
            if not isinstance(v, Raised):
                self.assign_name(node.target.id, v, s)
            yield v, s

    def e_IfExp(self, node, st):
        for c, s in self.eval(node.test, st):
            if isinstance(c, Raised):
                yield c, s
                continue
            for tv, s1 in self.truthy(c, s):
                if isinstance(tv, Raised):
                    yield tv, s1
                    continue
                for side, s2 in self.fork(s1, tv):
                    yield from self.eval(node.body if side else node.orelse, s2)

    def e_BoolOp(self, node, st):
        is_and = isinstance(node.op, ast.And)

        def go(i, s):
            for v, s1 in self.eval(node.values[i], s):
                if isinstance(v, Raised) or i == len(node.values) - 1:
                    yield v, s1
                    continue
                for tv, s2 in self.truthy(v, s1):
                    if isinstance(tv, Raised):
                        yield tv, s2
                        continue
                    for side, s3 in self.fork(s2, tv):
                        if side == is_and:
                            yield from go(i + 1, s3)
                        else:
                            yield v, s3
        yield from go(0, st)

    def e_UnaryOp(self, node, st):
        for v, s in self.eval(node.operand, st):
            if isinstance(v, Raised):
                yield v, s
            elif isinstance(node.op, ast.Not):
                for tv, s1 in self.truthy(v, s):
                    yield (tv if isinstance(tv, Raised) else b_not(tv)), s1
            elif isinstance(node.op, ast.USub):
                if isinstance(v, SRec) or isinstance(v, SObj):
                    yield from self.call_dunder(v, '__neg__', [], s, node)
                else:
                    yield mm.neg(v), s
            elif isinstance(node.op, ast.UAdd):
                yield v, s
            else:
                self.err(node, 'unary op')

    def e_BinOp(self, node, st):
        for vs, s in self.eval_many([node.left, node.right], st):
            if isinstance(vs, Raised):
                yield vs, s
                continue
            yield from self.binop(node.op, vs[0], vs[1], s, node)

    def binop(self, op, a, b, st, node, inplace=False):
        t = type(op)
        dn = BIN_DUNDER.get(t)
        if isinstance(a, (SObj, SRec)) and dn:
            names = ([f'__i{dn}__'] if inplace else []) + [f'__{dn}__']
            for nm in names:
                try:
                    f, _ = class_lookup(a.cls, nm)
                except AttributeError:
                    continue
                if isinstance(f, types.FunctionType):
                    yield from self.call_value(SBound(f, a), [b], {}, st, node)
                    return
        if isinstance(b, (SObj, SRec)) and dn:
            try:
                f, _ = class_lookup(b.cls, f'__r{dn}__')
                if isinstance(f, types.FunctionType):
                    yield from self.call_value(SBound(f, b), [a], {}, st, node)
                    return
            except AttributeError:
                pass
        if isinstance(a, (SObj, SRec)) or isinstance(b, (SObj, SRec)):
            self.err(node, f'operator {t.__name__} on {a!r}, {b!r}')
        if t in (ast.BitOr, ast.BitAnd):
            if isinstance(a, SBV) or isinstance(b, SBV):
                ta, tb = mm.bv(a), mm.bv(b)
                yield mm.mk_bv(ta | tb if t is ast.BitOr else ta & tb), st
            elif isinstance(a, (int, bool)) and isinstance(b, (int, bool)):
                yield (a | b if t is ast.BitOr else a & b), st
            elif isinstance(a, (SBool, bool)) and isinstance(b, (SBool, bool)):
                yield (b_or(a, b) if t is ast.BitOr else b_and(a, b)), st
            else:
                self.err(node, 'bit operator on non-flag values')
            return
        if t is ast.Add and isinstance(a, str) and isinstance(b, (str, SOpaque)) or \
                (t is ast.Add and isinstance(a, SOpaque)):
            yield SOpaque('strcat'), st
            return
        if t is ast.Add and isinstance(a, tuple) and isinstance(b, tuple):
            yield a + b, st
            return
        if t is ast.Add and isinstance(a, SList) and isinstance(b, SList) and a.concrete and b.concrete:
            yield SList(items=a.items + b.items), st
            return
        if t is ast.Mod and isinstance(a, str):
            yield SOpaque('strfmt'), st
            return
        if t not in BIN:
            self.err(node, f'operator {t.__name__}')
        if not (is_num(a) or isinstance(a, (SBool, bool))) or not (is_num(b) or isinstance(b, (SBool, bool))):
            self.err(node, f'arithmetic on non-numbers {a!r} {BIN[t]} {b!r}')
        opn = BIN[t]
        if opn in ('/', '//', '%'):
            # Python raises ZeroDivisionError on a zero divisor
            bz = mm.compare('==', b, 0)
            if bz is True:
                yield self.raise_py(ZeroDivisionError), st
                return
            if bz is not False and not self.ctx.spec_depth:
                if self.in_try(st, ZeroDivisionError):
                    for side, s in self.fork(st, bz):
                        if side:
                            yield self.raise_py(ZeroDivisionError), s
                        else:
                            yield mm.arith(self.ctx, opn, a, b), s
                    return
                self.ctx.oblige(st, f'nodiv0@L{getattr(node, "lineno", 0)}', 'nodiv0', 'safety',
                                z3.Not(bz.t), getattr(node, 'lineno', None),
                                note=ast.unparse(node) if node is not None else None)
                st.assume(z3.Not(bz.t))
        try:
            yield mm.arith(self.ctx, opn, a, b), st
        except PyZeroDivision:
            yield self.raise_py(ZeroDivisionError), st

    def in_try(self, st, exc_cls):
        for hs in getattr(st, 'try_stack', []):
            for h in hs:
                if h is None or (isinstance(h, type) and issubclass(exc_cls, h)):
                    return True
        return False

    def e_Compare(self, node, st):
        operands = [node.left] + list(node.comparators)

        def go(i, left, s):
            # evaluates comparator i (i>=1), compares with left, short-circuits like Python
            for r, s1 in self.eval(operands[i], s):
                if isinstance(r, Raised):
                    yield r, s1
                    continue
                for c, s2 in self.compare_op(node.ops[i - 1], left, r, s1, node):
                    if isinstance(c, Raised) or i == len(operands) - 1:
                        yield c, s2
                        continue
                    for tv, s3 in self.truthy(c, s2):
                        if isinstance(tv, Raised):
                            yield tv, s3
                            continue
                        for side, s4 in self.fork(s3, tv):
                            if side:
                                yield from go(i + 1, r, s4)
                            else:
                                yield c if isinstance(c, bool) else False, s4
        for l, s in self.eval(operands[0], st):
            if isinstance(l, Raised):
                yield l, s
            else:
                yield from go(1, l, s)

    def compare_op(self, op, a, b, st, node):
        t = type(op)
        if t in (ast.Is, ast.IsNot):
            r = self.identical(a, b)
            yield (r if t is ast.Is else not r), st
            return
        if t in (ast.In, ast.NotIn):
            for r, s in self.contains(b, a, st, node):
                if isinstance(r, Raised):
                    yield r, s
                else:
                    yield (r if t is ast.In else b_not(r)), s
            return
        opn = CMP[t]
        if isinstance(a, SObj) or (isinstance(a, SRec) and opn not in ('==', '!=')):
            try:
                f, k = class_lookup(a.cls, CMP_DUNDER[opn])
            except AttributeError:
                f = None
            if isinstance(f, types.FunctionType):
                yield from self.call_value(SBound(f, a), [b], {}, st, node)
                return
            if opn == '!=':
                try:
                    f, k = class_lookup(a.cls, '__eq__')
                except AttributeError:
                    f = None
                if isinstance(f, types.FunctionType):
                    for r, s in self.call_value(SBound(f, a), [b], {}, st, node):
                        if isinstance(r, Raised):
                            yield r, s
                        else:
                            for tv, s1 in self.truthy(r, s):
                                yield (tv if isinstance(tv, Raised) else b_not(tv)), s1
                    return
        if isinstance(b, SObj):
            # float.__lt__(x, obj) returns NotImplemented -> reflected method of obj (A-PY)
            try:
                f, k = class_lookup(b.cls, CMP_DUNDER[CMP_REFLECT[opn]])
            except AttributeError:
                f = None
            if isinstance(f, types.FunctionType):
                yield from self.call_value(SBound(f, b), [a], {}, st, node)
                return
        if isinstance(a, (SObj, SList)) or isinstance(b, (SObj, SList)):
            if opn in ('==', '!='):
                r = self.identical(a, b)
                yield (r if opn == '==' else not r), st
                return
            self.err(node, f'comparison {opn} on objects {a!r} {b!r}')
        if isinstance(a, SRec) and isinstance(b, SRec) and opn in ('==', '!='):
            if a.cls is not b.cls:
                yield opn == '!=', st
                return
            eqs = [mm.compare('==', a.vals[k], b.vals[k]) for k in a.vals]
            r = b_and(*eqs)
            yield (r if opn == '==' else b_not(r)), st
            return
        if a is None or b is None:
            if opn in ('==', '!='):
                r = (a is None and b is None)
                yield (r if opn == '==' else not r), st
                return
            yield self.raise_py(TypeError, 'ordering with None'), st
            return
        if isinstance(a, tuple) and isinstance(b, tuple) and opn in ('==', '!='):
            if len(a) != len(b):
                yield opn == '!=', st
                return
            parts = []
            for x, y in zip(a, b):
                outs = list(self.compare_op(ast.Eq(), x, y, st, node))
                if len(outs) != 1 or isinstance(outs[0][0], Raised):
                    self.err(node, 'tuple comparison forks')
                parts.append(outs[0][0])
            r = b_and(*parts)
            yield (r if opn == '==' else b_not(r)), st
            return
        if isinstance(a, (str, tuple)) or isinstance(b, (str, tuple)):
            if isinstance(a, (str, tuple)) and type(a) is type(b):
                yield {'<': a < b, '<=': a <= b, '>': a > b, '>=': a >= b, '==': a == b, '!=': a != b}[opn] \
                    if opn in ('==', '!=') or isinstance(a, str) else self.err(node, 'tuple ordering'), st
                return
            if opn in ('==', '!='):
                yield opn == '!=', st
                return
            yield self.raise_py(TypeError, 'ordering str/number'), st
            return
        if isinstance(a, (SOpaque, SOpaqueStr)) or isinstance(b, (SOpaque, SOpaqueStr)):
            self.err(node, 'comparison on opaque value')
        if isinstance(a, type) or isinstance(b, type) or callable(a) or callable(b):
            if opn in ('==', '!='):
                yield ((a is b) == (opn == '==')), st
                return
        yield mm.compare(opn, a, b), st

    def identical(self, a, b):
        if isinstance(a, (SObj, SList)) and isinstance(b, (SObj, SList)):
            return a.oid == b.oid
        if a is None or b is None:
            return a is None and b is None
        if isinstance(a, bool) and isinstance(b, bool):
            return a == b
        if isinstance(a, (SObj, SList, SRec)) or isinstance(b, (SObj, SList, SRec)):
            if isinstance(a, SRec) and isinstance(b, SRec):
                raise EngineError('identity of tuples')
            return False
        if is_sym(a) or is_sym(b):
            raise EngineError('identity test on symbolic scalar')
        return a is b or (type(a) is type(b) and isinstance(a, (int, str, Fraction)) and a == b and
                          isinstance(a, (str, enum.Enum)))

    def contains(self, container, x, st, node):
        if isinstance(container, SList):
            if not container.concrete:
                self.err(node, "'in' on a symbolic-length list")
            items = container.items
        elif isinstance(container, (tuple, list, dict)) or type(container).__name__ in ('dict_values', 'dict_keys'):
            items = list(container)
        elif isinstance(container, str):
            if isinstance(x, str):
                yield x in container, st
                return
            self.err(node, "'in' on str")
        else:
            self.err(node, f"'in' on {container!r}")
        if isinstance(x, SOpaqueStr):
            self.err(node, 'membership test on raw input string')
        if isinstance(x, SObj):
            yield any(isinstance(i, SObj) and i.oid == x.oid for i in items), st
            return
        if not is_sym(x):
            res = False
            for i in items:
                if is_sym(i):
                    self.err(node, 'membership among symbolic items')
                try:
                    if (i is x) or (type(i) is type(x) and i == x) or (is_num(i) and is_num(x) and i == x):
                        res = True
                        break
                except Exception:  # noqa
                    pass
            yield res, st
            return
        yield b_or(*[mm.compare('==', x, i) for i in items if is_num(i)]), st

    # -- attribute / subscript ---------------------------------------------
    def mangle(self, attr, st):
        """private name mangling inside class bodies (self.__x -> self._Class__x)"""
        if attr.startswith('__') and not attr.endswith('__'):
            dc = st.frame.finfo.defclass
            if dc is not None:
                return f'_{dc.__name__.lstrip("_")}{attr}'
        return attr

    def e_Attribute(self, node, st):
        for o, s in self.eval(node.value, st):
            if isinstance(o, Raised):
                yield o, s
            else:
                yield from self.getattr(o, self.mangle(node.attr, s), s, node)

    def getattr(self, o, name, st, node=None):
        if isinstance(o, tuple) and len(o) == 3 and o[0] == 'super':
            _, dc, selfv = o
            cls = selfv.cls if isinstance(selfv, (SObj, SRec)) else (selfv if isinstance(selfv, type) else type(selfv))
            mro = cls.__mro__
            for k in mro[mro.index(dc) + 1:]:
                if name in k.__dict__:
                    a = k.__dict__[name]
                    if isinstance(a, types.FunctionType):
                        yield SBound(a, selfv), st
                    elif isinstance(a, (staticmethod, classmethod)):
                        yield (a.__func__ if isinstance(a, staticmethod) else SBound(a.__func__, cls)), st
                    elif isinstance(a, property):
                        yield from self.call_value(SBound(a.fget, selfv), [], {}, st, node)
                    else:
                        # slot wrappers of object / BaseException (__init__ etc.)
                        yield SBound(('supermethod', (k, name)), selfv), st
                    return
            yield self.raise_py(AttributeError, name), st
            return
        if isinstance(o, Undefined):
            self.err(node, f'use of possibly-undefined local {o.name}')
        if isinstance(o, SObj):
            if name in o.fields:
                v = o.fields[name]
                if isinstance(v, Undefined):
                    if getattr(v, 'leftover', None):
                        self.err(node, f'depends on state left by an earlier call: field {name} of a long-used '
                                       f'{o.cls.__name__} (assigned by {v.leftover}) is read before this call has '
                                       f'written it - the result is not a function of the arguments and the configuration')
                    self.err(node, f'read of havocked-away field {name}')
                yield v, st
                return
            if name == '__dict__':
                slots = set()
                for k in o.cls.__mro__:
                    slots.update(getattr(k, '__slots__', ()) if isinstance(getattr(k, '__slots__', ()), (tuple, list))
                                 else ())
                yield {k: v for k, v in o.fields.items() if k not in slots}, st
                return
            if name == '__class__':
                yield o.cls, st
                return
            if (o.cls, name) in st.cls_over:
                yield st.cls_over[(o.cls, name)], st
                return
            try:
                a, k = class_lookup(o.cls, name)
            except AttributeError:
                if getattr(o, 'described', False) and not name.startswith('__'):
                    self.err(node, f'contract does not bind: field {name!r} is not in the shape given for '
                                   f'{o.cls.__name__} object {o.label}')
                yield self.raise_py(AttributeError, name), st
                return
            if isinstance(a, property):
                yield from self.call_value(SBound(a.fget, o), [], {}, st, node)
            elif isinstance(a, functools.cached_property):
                # computed on first access, then stored on the instance under the same name
                # (a WRITE to the instance: it goes through setattr, so that frozen / read-only objects and the frame
                # clauses see it - memoising on an argument object mutates that argument)
                for r, s1 in self.call_value(SBound(a.func, o), [], {}, st, node):
                    if not isinstance(r, Raised):
                        o1 = find_by_oid(s1, o.oid) or o
                        if o1.frozen or getattr(o1, 'described', False):
                            self.err(node, f'cached_property {name} stores its value on a pre-existing {o.cls.__name__} object '
                                           f'({o1.label}): the call mutates an object it was given')
                        o1.fields[name] = r
                    yield r, s1
            elif isinstance(a, types.FunctionType):
                yield SBound(a, o), st
            elif isinstance(a, staticmethod):
                yield a.__func__, st
            elif isinstance(a, classmethod):
                yield SBound(a.__func__, o.cls), st
            elif isinstance(a, types.MemberDescriptorType):
                if getattr(o, 'described', False):
                    self.err(node, f'contract does not bind: slot {name!r} is not in the shape given for '
                                   f'{o.cls.__name__} object {o.label}')
                yield self.raise_py(AttributeError, name), st
            else:
                yield self.lift(a, st), st
            return
        if isinstance(o, SRec):
            if name in o.vals:
                yield o.vals[name], st
                return
            try:
                a, k = class_lookup(o.cls, name)
            except AttributeError:
                yield self.raise_py(AttributeError, name), st
                return
            if isinstance(a, types.FunctionType):
                yield SBound(a, o), st
            elif isinstance(a, property):
                yield from self.call_value(SBound(a.fget, o), [], {}, st, node)
            else:
                yield self.lift(a, st), st
            return
        if isinstance(o, SList):
            yield SBound(('list', name), o), st
            return
        if isinstance(o, SOpaqueStr):
            if name in ('strip', 'lower'):
                yield SBound(('opaquestr', name), o), st
                return
            self.err(node, f'raw input string used through .{name} (normal-form lemma fails)')
        if isinstance(o, type):
            if (o, name) in st.cls_over:
                yield st.cls_over[(o, name)], st
                return
            try:
                a, k = class_lookup(o, name)
            except AttributeError:
                # metaclass attributes (Enum __members__ etc.)
                try:
                    yield self.lift(getattr(o, name), st), st
                except AttributeError:
                    yield self.raise_py(AttributeError, name), st
                return
            if isinstance(a, staticmethod):
                yield a.__func__, st
            elif isinstance(a, classmethod):
                yield SBound(a.__func__, o), st
            elif isinstance(a, (types.FunctionType, property)):
                yield a, st
            else:
                yield self.lift(getattr(o, name), st), st
            return
        if isinstance(o, types.ModuleType):
            key = (id(o.__dict__), name)
            if key in st.gl:
                yield st.gl[key], st
                return
            if not hasattr(o, name):
                yield self.raise_py(AttributeError, name), st
                return
            yield self.lift(getattr(o, name), st), st
            return
        if isinstance(o, (str, tuple, dict)) or type(o).__name__ in ('dict_items', 'dict_values', 'dict_keys'):
            yield SBound(('native', name), o), st
            return
        if isinstance(o, enum.Enum):
            # Unit members: properties/methods defined in the repo are inlined
            try:
                a, k = class_lookup(type(o), name)
            except AttributeError:
                a = None
            if isinstance(a, property) and self.index.info_for_pyfunc(a.fget):
                yield from self.call_value(SBound(a.fget, o), [], {}, st, node)
                return
            if isinstance(a, types.FunctionType) and self.index.info_for_pyfunc(a):
                yield SBound(a, o), st
                return
            yield self.lift(getattr(o, name), st), st
            return
        if o is None:
            yield self.raise_py(AttributeError, f'NoneType.{name}'), st
            return
        if is_num(o):
            if name == 'raw_value' or name.startswith('_'):
                yield self.raise_py(AttributeError, f'number has no attribute {name}'), st
                return
            yield self.raise_py(AttributeError, f'number has no attribute {name}'), st
            return
        if isinstance(o, SOpaque):
            self.err(node, f'attribute {name} of opaque value')
        try:
            yield self.lift(getattr(o, name), st), st
        except AttributeError:
            yield self.raise_py(AttributeError, name), st

    def setattr(self, o, name, v, st, node=None):
        if isinstance(o, SObj):
            if o.frozen and '__owner' in o.fields:
                owner = find_by_oid(st, o.fields['__owner'])
                if owner is None or owner.frozen:
                    self.err(node, f'store to field {name} of an element of a read-only list')
                idx = o.fields['__idx']
                new = SObj(o.cls, dict(o.fields), frozen=True)
                new.fields[name] = v
                old = owner.elem if not owner.concrete else None
                if old is None:
                    self.err(node, 'store through a view of a concrete list')
                owner.elem = lambda j, old=old, idx=idx, name=name, v=v: self._elem_with(old(j), j, idx, name, v)
                yield None, st
                return
            if o.frozen:
                self.err(node, f'mutation of frozen object field {name}')
            try:
                a, k = class_lookup(o.cls, name)
            except AttributeError:
                a = None
            if isinstance(a, property):
                if a.fset is None:
                    yield self.raise_py(AttributeError, f"can't set {name}"), st
                    return
                for r, s in self.call_value(SBound(a.fset, o), [v], {}, st, node):
                    yield (r if isinstance(r, Raised) else None), s
                return
            if getattr(o.cls, '__dataclass_params__', None) is not None and o.cls.__dataclass_params__.frozen \
                    and not getattr(self, '_in_dataclass_init', False):
                yield self.raise_py(AttributeError, 'frozen dataclass'), st
                return
            if name == '_value' and '_value' in o.fields and not self.ctx.concrete_math:
                # strict write frame for the magnitude of a quantity (C13): a quantity that already HAS a magnitude is
                # never written again, whatever value is stored (frame conditions are about locations written - over the
                # reals a re-derived magnitude is equal, in binary64 it drifts; for tangent units it wraps)
                fn = st.frame.finfo.qualname
                self.ctx.oblige(st, f'{fn}#frame-write:magnitude-of-an-existing-quantity-is-never-written@L{getattr(node, "lineno", 0)}',
                                'frame', 'clause', z3.BoolVal(False), getattr(node, 'lineno', None),
                                note=f'store to _value of an existing {o.cls.__name__} in {fn}')
            o.fields[name] = v
            yield None, st
            return
        if isinstance(o, type):
            st.cls_over[(o, name)] = v
            yield None, st
            return
        if isinstance(o, types.ModuleType):
            st.gl[(id(o.__dict__), name)] = v
            yield None, st
            return
        self.err(node, f'attribute store on {o!r}')

    def _elem_with(self, base, j, idx, name, v):
        """element j of a list one of whose elements (idx) had field ``name`` set to v"""
        c = mm.compare('==', j, idx)
        if c is False:
            return base
        new = SObj(base.cls, dict(base.fields), frozen=True)
        new.fields[name] = v if c is True else self.ite(c, v, base.fields[name])
        return new

    def e_Subscript(self, node, st):
        for o, s in self.eval(node.value, st):
            if isinstance(o, Raised):
                yield o, s
                continue
            if isinstance(node.slice, ast.Slice):
                parts = [node.slice.lower, node.slice.upper, node.slice.step]
                nodes = [p for p in parts if p is not None]
                for vs, s1 in self.eval_many(nodes, s):
                    if isinstance(vs, Raised):
                        yield vs, s1
                        continue
                    it = iter(vs)
                    lo, hi, step = [next(it) if p is not None else None for p in parts]
                    yield self.slice_of(o, lo, hi, step, node), s1
                continue
            for i, s1 in self.eval(node.slice, s):
                if isinstance(i, Raised):
                    yield i, s1
                else:
                    yield from self.getitem(o, i, s1, node)

    def seq_len(self, o):
        if isinstance(o, SList):
            return len(o.items) if o.concrete else o.length
        if isinstance(o, (tuple, list, str, dict)):
            return len(o)
        raise EngineError(f'len of {o!r}')

    def seq_elem(self, o, i):
        """element i (0 <= i < len assumed) of a sequence value"""
        if isinstance(o, SList):
            if o.concrete:
                if is_sym(i):
                    return self.ite_chain(i, o.items)
                return o.items[int(i)]
            return o.elem(i if is_sym(i) else int(i))
        if isinstance(o, (tuple, list)):
            if is_sym(i):
                return self.ite_chain(i, list(o))
            return self.lift_elem(o[int(i)])
        raise EngineError(f'indexing {o!r}')

    def lift_elem(self, v):
        return lift_float(v)

    def ite_chain(self, i, items):
        if not items:
            raise EngineError('symbolic index into empty concrete list')
        r = items[-1]
        for k in range(len(items) - 2, -1, -1):
            r = self.ite(mm.compare('==', i, k), items[k], r)
        return r

    def ite(self, c, a, b):
        if isinstance(c, bool):
            return a if c else b
        if a is b or (not is_sym(a) and not is_sym(b) and same_value(a, b)):
            return a
        if isinstance(a, SRec) and isinstance(b, SRec) and a.cls is b.cls:
            return SRec(a.cls, {k: self.ite(c, a.vals[k], b.vals[k]) for k in a.vals})
        if isinstance(a, tuple) and isinstance(b, tuple) and len(a) == len(b):
            return tuple(self.ite(c, x, y) for x, y in zip(a, b))
        if isinstance(a, (SBool, bool)) and isinstance(b, (SBool, bool)):
            return mk_bool(z3.If(c.t, zbool(a), zbool(b)))
        if isinstance(a, (SBV,)) or isinstance(b, SBV):
            return mm.mk_bv(z3.If(c.t, mm.bv(a), mm.bv(b)))
        if is_num(a) and is_num(b):
            ta, tb = mm._pair(a, b)
            return mk_num(z3.If(c.t, ta, tb))
        if isinstance(a, SObj) and isinstance(b, SObj):
            if a.oid == b.oid:
                return a
            fa = {k for k in a.fields if not k.startswith('__')}
            fb = {k for k in b.fields if not k.startswith('__')}
            if a.cls is b.cls and fa == fb:
                # a read-only view standing for "a or b" (elements stored into symbolic lists)
                return SObj(a.cls, {k: self.ite(c, a.fields[k], b.fields[k]) for k in fa}, frozen=True)
        if same_value(a, b):
            return a
        raise EngineError(f'cannot merge values {a!r} / {b!r}')

    def getitem(self, o, i, st, node):
        if isinstance(o, SObj):
            yield from self.call_dunder(o, '__getitem__', [i], st, node)
            return
        if isinstance(o, dict):
            if is_sym(i) or isinstance(i, (SObj, SOpaqueStr)):
                self.err(node, 'symbolic dict key')
            if i in o:
                yield self.lift_elem(o[i]), st
            else:
                yield self.raise_py(KeyError, str(i)), st
            return
        if isinstance(o, type) and issubclass(o, enum.Enum):
            if isinstance(i, str):
                try:
                    yield o[i], st
                except KeyError:
                    yield self.raise_py(KeyError, i), st
                return
            self.err(node, 'Enum[...] with non-concrete key')
        if isinstance(o, SRec):
            if is_sym(i):
                self.err(node, 'symbolic index into tuple')
            yield list(o.vals.values())[int(i)], st
            return
        if isinstance(o, str):
            yield o[int(i)], st
            return
        if isinstance(o, (typing._GenericAlias, typing._SpecialForm)) or type(o).__module__ == 'typing':
            yield o, st
            return
        n = self.seq_len(o)
        if not is_sym(i) and not is_sym(n):
            ii = int(i)
            if ii < -n or ii >= n:
                yield self.raise_py(IndexError, 'index out of range'), st
                return
            yield self.seq_elem(o, ii % n if n else 0), st
            return
        if not is_sym(i) and int(i) < 0:
            idx = mm.arith(self.ctx, '+', n, int(i))
        else:
            idx = i
        inb = b_and(mm.compare('>=', idx, 0), mm.compare('<', idx, n))
        if inb is False:
            yield self.raise_py(IndexError, 'index out of range'), st
            return
        if inb is not True and not self.ctx.spec_depth:
            if self.in_try(st, IndexError):
                for side, s in self.fork(st, inb):
                    if side:
                        yield self.seq_elem(o, idx), s
                    else:
                        yield self.raise_py(IndexError), s
                return
            self.ctx.oblige(st, f'index@L{getattr(node, "lineno", 0)}', 'index', 'safety', inb.t,
                            getattr(node, 'lineno', None), note=ast.unparse(node) if node is not None else None)
            st.assume(inb.t)
        yield self.seq_elem(o, idx), st

    def slice_of(self, o, lo, hi, step, node):
        if step is not None and step != 1:
            self.err(node, 'slice step')
        n = self.seq_len(o)
        if isinstance(o, str):
            return o[lo:hi]
        if not is_sym(n) and (lo is None or not is_sym(lo)) and (hi is None or not is_sym(hi)):
            items = o.items if isinstance(o, SList) else list(o)
            r = items[slice(lo, hi)]
            return tuple(r) if isinstance(o, tuple) else SList(items=list(r))
        # symbolic: requires 0 <= lo, hi  (negative bounds not modelled)
        lo_v = 0 if lo is None else lo
        hi_v = n if hi is None else mm.m_min(hi, n)
        for b in (lo_v, hi_v):
            if not is_sym(b) and b < 0:
                self.err(node, 'negative slice bound on symbolic list')
        lo_c = mm.m_min(mm.m_max(lo_v, 0), n)
        hi_c = mm.m_max(mm.m_min(mm.m_max(hi_v, 0), n), lo_c)
        length = mm.arith(self.ctx, '-', hi_c, lo_c)
        base = o
        return SList(elem=lambda j, base=base, lo_c=lo_c: self.seq_elem(base, mm.arith(self.ctx, '+', lo_c, j)),
                     length=length)

    # -- comprehensions --------------------------------------------------------
    def e_ListComp(self, node, st):
        yield from self.comprehension(node, st, as_list=True)

    def e_GeneratorExp(self, node, st):
        yield from self.comprehension(node, st, as_list=True)

    def comprehension(self, node, st, as_list):
        if len(node.generators) != 1:
            self.err(node, 'nested comprehension')
        gen = node.generators[0]
        for it, s in self.eval(gen.iter, st):
            if isinstance(it, Raised):
                yield it, s
                continue
            seq = self.as_sequence(it, node)
            n = self.seq_len(seq)
            if not is_sym(n):
                yield from self._comp_concrete(node, gen, seq, int(n), s)
            else:
                if gen.ifs:
                    self.err(node, 'filtered comprehension over symbolic-length sequence')
                # map form: element j of the result is elt evaluated with target = seq[j] (pure, merged)
                frame_fid = s.frame.fid

                def elem(j, seq=seq, s=s, node=node, gen=gen):
                    return self.spec_eval_with(node.elt, s, gen.target, self.seq_elem(seq, j))
                out = SList(elem=None, length=n)
                oid = out.oid

                def elem2(j, elem=elem, oid=oid):
                    # objects created by the element expression are materialised as elements of the new
                    # list (views owned by it), so that later stores through them are kept
                    v = elem(j)
                    if isinstance(v, SObj) and '__owner' not in v.fields and not v.frozen:
                        w = SObj(v.cls, dict(v.fields), frozen=True)
                        w.fields['__owner'] = oid
                        w.fields['__idx'] = j
                        return w
                    return v
                out.elem = elem2
                yield out, s

    def _comp_concrete(self, node, gen, seq, n, st):
        def go(i, acc, s):
            if i == n:
                yield SList(items=list(acc)), s
                return
            f = s.frame
            saved = dict(f.vars)
            self.assign_target(gen.target, self.seq_elem(seq, i), s)

            def conds(k, s2):
                if k == len(gen.ifs):
                    yield True, s2
                    return
                for c, s3 in self.eval(gen.ifs[k], s2):
                    if isinstance(c, Raised):
                        yield c, s3
                        continue
                    for tv, s4 in self.truthy(c, s3):
                        if isinstance(tv, Raised):
                            yield tv, s4
                            continue
                        for side, s5 in self.fork(s4, tv):
                            if side:
                                yield from conds(k + 1, s5)
                            else:
                                yield False, s5
            for ok, s2 in conds(0, s):
                if isinstance(ok, Raised):
                    yield ok, s2
                elif ok:
                    for v, s3 in self.eval(node.elt, s2):
                        if isinstance(v, Raised):
                            yield v, s3
                        else:
                            yield from go(i + 1, acc + (v,), s3)
                else:
                    yield from go(i + 1, acc, s2)
        yield from go(0, (), st)

    def as_sequence(self, it, node=None):
        if isinstance(it, (SList, tuple, list)):
            return it
        if isinstance(it, dict):
            return list(it.keys())
        if type(it).__name__ in ('dict_items', 'dict_values', 'dict_keys'):
            return list(it)
        if isinstance(it, str):
            return list(it)
        if isinstance(it, SRec):
            return list(it.vals.values())
        if isinstance(it, type) and issubclass(it, enum.Enum):
            return list(it)
        self.err(node, f'iteration over {it!r}')

    # -- spec-mode (pure, merged) evaluation -------------------------------------
    def spec_eval_with(self, expr, st, target=None, value=None, extra=None):
        """Evaluate ``expr`` purely on a clone of ``st`` (optionally with ``target`` bound to
        ``value`` / extra names bound) and merge all paths into one value with ITE."""
        s0 = st.clone()
        base = len(s0.pc)
        if target is not None:
            self.assign_target(target, s0.map_value(value), s0)
        if extra:
            for k, v in extra.items():
                s0.frame.vars[k] = s0.map_value(v)
        self.ctx.spec_depth += 1
        try:
            outs = []
            for v, s in self.eval(expr, s0):
                if isinstance(v, Raised):
                    raise EngineError(f'specification / pure expression raises {v.exc.cls.__name__}: '
                                      f'{ast.unparse(expr)[:80]}')
                outs.append((v, list(s.pc[base:])))
        finally:
            self.ctx.spec_depth -= 1
        if not outs:
            raise EngineError('pure expression has no path')
        res = outs[-1][0]
        for v, conds in reversed(outs[:-1]):
            c = mk_bool(z3.And(*conds)) if len(conds) > 1 else (mk_bool(conds[0]) if conds else True)
            res = self.ite(c, v, res)
        return res

    def spec_bool(self, expr, st, extra=None, locals_visible=True, target=None, value=None):
        """boolean specification expression -> z3 formula (all paths merged)"""
        if isinstance(expr, str):
            expr = ast.parse(expr.strip(), mode='eval').body
        s0 = st.clone()
        base = len(s0.pc)
        if target is not None:
            self.assign_target(target, s0.map_value(value), s0)
        if extra:
            for k, v in extra.items():
                s0.frame.vars[k] = s0.map_value(v) if not callable(v) or isinstance(v, (SFunc,)) else v
        self.ctx.spec_depth += 1
        try:
            parts = []
            for v, s in self.eval(expr, s0):
                if isinstance(v, Raised):
                    raise EngineError(f'specification raises {v.exc.cls.__name__} {v.exc.fields.get("args")}: '
                                      f'{ast.unparse(expr)[:100]}')
                for tv, s1 in self.truthy(v, s):
                    conds = list(s1.pc[base:])
                    t = zbool(tv) if isinstance(tv, (bool, SBool)) else None
                    if t is None:
                        raise EngineError('non-boolean specification')
                    parts.append(z3.Implies(z3.And(*conds), t) if conds else t)
        finally:
            self.ctx.spec_depth -= 1
        return z3.And(*parts) if len(parts) != 1 else parts[0]

    def spec_value(self, expr, st, extra=None):
        if isinstance(expr, str):
            expr = ast.parse(expr.strip(), mode='eval').body
        return self.spec_eval_with(expr, st, extra=extra)

    # ==================================================================
    # calls
    def e_Call(self, node, st):
        # logging / warnings are no-ops on program state (A-LOG)
        try:
            src = ast.unparse(node.func)
        except Exception:  # noqa
            src = ''
        if src.startswith(NOOP_CALL_PREFIXES):
            for sub in ast.walk(node):
                if isinstance(sub, ast.NamedExpr):
                    self.err(node, 'assignment inside a logging call')
            self.ctx.dropped[src] += 1
            yield None, st
            return
        if src == 'old' and self.ctx.spec_depth and 'old' not in st.frame.vars:
            if st.old is None:
                self.err(node, 'old() without an entry snapshot')
            yield self.spec_eval_with(node.args[0], st.old), st
            return
        if src == 'next' and node.args and isinstance(node.args[0], ast.GeneratorExp) and not node.keywords:
            yield from self.first_match(node, st)
            return
        if src == 'head' and self.ctx.spec_depth and 'head' not in st.frame.vars:
            hs = getattr(st, 'loop_heads', None)
            if not hs:
                self.err(node, 'head() outside a loop step clause')
            yield self.spec_eval_with(node.args[0], hs[-1]), st
            return
        if src == 'super':
            f = st.frame
            selfv = f.vars.get('self')
            if selfv is None or f.finfo.defclass is None:
                self.err(node, 'super() outside a method')
            yield ('super', f.finfo.defclass, selfv), st
            return
        for fv, s in self.eval(node.func, st):
            if isinstance(fv, Raised):
                yield fv, s
                continue
            pos_nodes, star = [], []
            for a in node.args:
                if isinstance(a, ast.Starred):
                    star.append(('*', a.value))
                else:
                    star.append((None, a))
            kw_nodes = [(k.arg, k.value) for k in node.keywords]
            all_nodes = [a for _, a in star] + [v for _, v in kw_nodes]
            for vs, s1 in self.eval_many(all_nodes, s):
                if isinstance(vs, Raised):
                    yield vs, s1
                    continue
                args = []
                for (kind, _), v in zip(star, vs[:len(star)]):
                    if kind == '*':
                        seq = self.as_sequence(v, node)
                        n = self.seq_len(seq)
                        if is_sym(n):
                            self.err(node, '*args of symbolic length')
                        args.extend(self.seq_elem(seq, k) for k in range(n))
                    else:
                        args.append(v)
                kwargs = {}
                for (k, _), v in zip(kw_nodes, vs[len(star):]):
                    if k is None:
                        if not isinstance(v, dict):
                            self.err(node, '**kwargs of non-dict')
                        kwargs.update(v)
                    else:
                        kwargs[k] = v
                yield from self.call_value(fv, args, kwargs, s1, node)

    def first_match(self, node, st):
        """next((elt for x in seq if cond), default): first element of seq satisfying cond"""
        ge = node.args[0]
        if len(ge.generators) != 1:
            self.err(node, 'nested generator in next()')
        gen = ge.generators[0]
        defaults = node.args[1:]
        for it, s in self.eval(gen.iter, st):
            if isinstance(it, Raised):
                yield it, s
                continue
            for dv, s1 in self.eval_many(defaults, s):
                if isinstance(dv, Raised):
                    yield dv, s1
                    continue
                seq = self.as_sequence(it, node)
                n = self.seq_len(seq)
                cond_ast = ast.BoolOp(op=ast.And(), values=list(gen.ifs)) if len(gen.ifs) > 1 else \
                    (gen.ifs[0] if gen.ifs else ast.Constant(value=True))
                ast.fix_missing_locations(cond_ast)

                def cond_at(j, s_):
                    return mk_bool(self.spec_bool(cond_ast, s_, target=gen.target, value=self.seq_elem(seq, j)))
                if not is_sym(n) and n <= 64 and all(not is_sym(cond_at(j, s1)) for j in range(n)):
                    hit = None
                    for j in range(n):
                        if cond_at(j, s1):
                            hit = j
                            break
                    if hit is None:
                        if defaults:
                            yield dv[0], s1
                        else:
                            yield self.raise_py(StopIteration), s1
                    else:
                        yield self.spec_eval_with(ge.elt, s1, gen.target, self.seq_elem(seq, hit)), s1
                    continue
                ctx = self.ctx
                k = SNum(ctx.fresh_int('first'))
                q = z3.Int(ctx.fresh_name('fq'))
                found = SBool(ctx.fresh_bool('found'))
                nz = zval(n)
                cq = cond_at(SNum(q), s1)
                none_before = z3.ForAll([q], z3.Implies(z3.And(q >= 0, q < k.t), z3.Not(zbool(cq))))
                none_at_all = z3.ForAll([q], z3.Implies(z3.And(q >= 0, q < nz), z3.Not(zbool(cq))))
                for side, s2 in self.fork(s1, found):
                    if side:
                        s2.assume(z3.And(k.t >= 0, k.t < nz, zbool(cond_at(k, s2)), none_before))
                        yield self.spec_eval_with(ge.elt, s2, gen.target, self.seq_elem(seq, k)), s2
                    else:
                        s2.assume(none_at_all)
                        if defaults:
                            yield dv[0], s2
                        else:
                            yield self.raise_py(StopIteration), s2

    def call_dunder(self, o, name, args, st, node):
        try:
            f, k = class_lookup(o.cls, name)
        except AttributeError:
            yield self.raise_py(TypeError, f'{o.cls.__name__} has no {name}'), st
            return
        yield from self.call_value(SBound(f, o), args, {}, st, node)

    def call_value(self, fv, args, kwargs, st, node):
        from .intrinsics import INTRINSICS, call_intrinsic, list_method, native_method
        if isinstance(fv, tuple) and fv and fv[0] == 'super':
            self.err(node, 'bare super() value called')
        if isinstance(fv, SBound):
            f = fv.func
            if isinstance(f, tuple):
                kind, name = f
                if kind == 'list':
                    yield from list_method(self, fv.selfv, name, args, kwargs, st, node)
                elif kind == 'native':
                    yield from native_method(self, fv.selfv, name, args, kwargs, st, node)
                elif kind == 'opaquestr':
                    o = fv.selfv
                    if name == 'strip' and o.stage == 0:
                        yield SOpaqueStr(o.nf, 1), st
                    elif name == 'lower' and o.stage == 1:
                        yield o.nf, st
                    else:
                        self.err(node, 'raw input string not used through .strip().lower()')
                elif kind == 'supermethod':
                    cls, name2 = name
                    if name2 == '__init__':
                        if isinstance(fv.selfv, SObj) and issubclass(fv.selfv.cls, BaseException):
                            fv.selfv.fields['args'] = tuple(args)
                        yield None, st
                        return
                    self.err(node, f'builtin super method {name2}')
                else:
                    self.err(node, f'bound {kind}')
                return
            yield from self.call_value(f, [fv.selfv] + list(args), kwargs, st, node)
            return
        if isinstance(fv, SFunc):
            yield from self.call_closure(fv, args, kwargs, st, node)
            return
        if isinstance(fv, types.MethodType):
            yield from self.call_value(fv.__func__, [self.lift(fv.__self__, st)] + list(args), kwargs, st, node)
            return
        if isinstance(fv, property):
            self.err(node, 'call of property object')
        try:
            h = INTRINSICS.get(fv)
        except TypeError:
            h = None
        if h is not None:
            try:
                yield from call_intrinsic(self, h, fv, args, kwargs, st, node)
            except PyZeroDivision:
                yield self.raise_py(ZeroDivisionError), st
            except PyValueError:
                yield self.raise_py(ValueError), st
            except PyRaise as e:
                yield self.raise_py(e.cls, e.msg), st
            return
        if isinstance(fv, type):
            yield from self.construct(fv, args, kwargs, st, node)
            return
        if isinstance(fv, types.FunctionType) and getattr(fv, '_uninterpreted', False):
            zs = [zreal(a) for a in args]
            f = self.ctx.uf(f'spec.{fv.__name__}', *([z3.RealSort()] * (len(zs) + 1)))
            self.ctx.trusted[f'uninterpreted specification function {fv.__name__}'] += 0
            yield SNum(f(*zs)), st
            return
        if isinstance(fv, types.FunctionType) and getattr(fv, '_opaque', False) and not self.ctx.reveal_depth \
                and not self.ctx.concrete_math:
            yield self.opaque_app(fv, args, kwargs, node), st
            return
        if isinstance(fv, types.FunctionType):
            info = self.index.info_for_pyfunc(fv)
            if info is None:
                self.err(node, f'call of function without indexed source: {fv!r}')
            c = self.contracts.get(info.key)
            if c is not None and c.modular and self.modular and (not self.ctx.spec_depth or c.functional) \
                    and not (self.active_contract is not None and c.key in self.active_contract.inline) \
                    and (self.active_contract is None or c.key != self.active_contract.key or self.call_depth > 0):
                from .modular import apply_contract
                yield from apply_contract(self, c, info, args, kwargs, st, node)
                return
            yield from self.call_function(info, args, kwargs, st, node, pyfunc=fv)
            return
        if isinstance(fv, enum.Enum):
            # Unit member called: Unit.__call__
            f, k = class_lookup(type(fv), '__call__')
            yield from self.call_value(f, [fv] + list(args), kwargs, st, node)
            return
        if isinstance(fv, SObj):
            yield from self.call_dunder(fv, '__call__', args, st, node)
            return
        self.err(node, f'call of {fv!r}')

    def opaque_uf(self, fv, sorts=None):
        info = self.index.info_for_pyfunc(fv)
        n = len(info.node.args.args)
        key = fv.__name__
        if key not in self.ctx.opaque_ufs:
            # parameter sorts: annotation 'list' -> array of reals, otherwise real
            sorts = []
            for a in info.node.args.args:
                ann = ast.unparse(a.annotation) if a.annotation is not None else ''
                sorts.append(z3.ArraySort(z3.IntSort(), z3.RealSort()) if 'list' in ann else
                             (z3.IntSort() if ann == 'int' else z3.RealSort()))
            self.ctx.opaque_ufs[key] = (z3.Function(key, *(list(sorts) + [z3.BoolSort()])), fv, n)
        return self.ctx.opaque_ufs[key][0]

    def opaque_arg(self, a, node):
        if isinstance(a, SList):
            if a.concrete:
                if not all(is_num(x) for x in a.items):
                    self.err(node, 'opaque predicate applied to a list of non-numbers')
                arr = z3.K(z3.IntSort(), z3.RealVal(0))
                for k, x in enumerate(a.items):
                    arr = z3.Store(arr, k, zreal(x))
                return arr
            base = getattr(a.elem, 'base_array', None)
            if base is None:
                self.err(node, 'opaque predicate applied to a list that is not a plain array')
            return base
        return zreal(a)

    def opaque_app(self, fv, args, kwargs, node):
        if kwargs:
            self.err(node, 'keyword arguments to an opaque predicate')
        zs = [self.opaque_arg(a, node) for a in args]
        uf = self.opaque_uf(fv, [z.sort() for z in zs])
        for i, z in enumerate(zs):
            if uf.domain(i).kind() == z3.Z3_INT_SORT:
                zs[i] = zval(args[i]) if num_is_int(args[i]) else z3.ToInt(z)
        return mk_bool(uf(*zs))

    def reveal_axiom(self, fv, st):
        """forall args. P(args) == definition(args), instantiated by pattern P(args) only"""
        uf = self.opaque_uf(fv)
        info = self.index.info_for_pyfunc(fv)
        names = [a.arg for a in info.node.args.args]
        vs = [z3.Const(self.ctx.fresh_name(f'rv_{n}'), uf.domain(i)) for i, n in enumerate(names)]
        call = ast.parse(f'__p({", ".join("__a%d" % i for i in range(len(vs)))})', mode='eval').body
        extra = {'__p': fv}
        for i, v in enumerate(vs):
            if z3.is_array(v):
                def elem(j, v=v):
                    return SNum(z3.Select(v, zval(j)))
                elem.base_array = v
                extra[f'__a{i}'] = SList(elem=elem, length=SNum(z3.Int(self.ctx.fresh_name('rv_len'))))
            else:
                extra[f'__a{i}'] = SNum(v)
        self.ctx.reveal_depth += 1
        try:
            body = self.spec_bool(call, st, extra=extra)
        finally:
            self.ctx.reveal_depth -= 1
        app = uf(*vs)
        return z3.ForAll(vs, app == body, patterns=[app])

    def bind_args(self, argspec, args, kwargs, defaults, kwdefaults, node, fname):
        """Python argument binding.  defaults: list aligned to the tail of positional params."""
        a = argspec
        params = [p.arg for p in a.posonlyargs + a.args]
        env = {}
        args = list(args)
        if len(args) > len(params) and a.vararg is None:
            raise PyRaise(TypeError, f'{fname}: too many positional arguments')
        for p, v in zip(params, args):
            env[p] = v
        if a.vararg is not None:
            env[a.vararg.arg] = tuple(args[len(params):])
        kw = dict(kwargs)
        for p in params[len(args):]:
            if p in kw:
                env[p] = kw.pop(p)
        for p in list(kw):
            if p in env and p in params:
                raise PyRaise(TypeError, f'{fname}: multiple values for {p}')
        nd = len(defaults)
        for i, p in enumerate(params):
            if p not in env:
                j = i - (len(params) - nd)
                if j >= 0:
                    env[p] = defaults[j]
                else:
                    raise PyRaise(TypeError, f'{fname}: missing argument {p}')
        for p in a.kwonlyargs:
            if p.arg in kw:
                env[p.arg] = kw.pop(p.arg)
            elif p.arg in kwdefaults:
                env[p.arg] = kwdefaults[p.arg]
            else:
                raise PyRaise(TypeError, f'{fname}: missing keyword argument {p.arg}')
        if a.kwarg is not None:
            env[a.kwarg.arg] = kw
        elif kw:
            raise PyRaise(TypeError, f'{fname}: unexpected keyword argument {sorted(kw)[0]}')
        return env

    def call_function(self, info, args, kwargs, st, node, pyfunc=None):
        pyfunc = pyfunc or info.pyfunc
        if pyfunc is not None:
            defaults = [self.lift(d, st) for d in (pyfunc.__defaults__ or ())]
            kwdefaults = {k: self.lift(v, st) for k, v in (pyfunc.__kwdefaults__ or {}).items()}
        else:
            defaults, kwdefaults = [], {}
        try:
            env = self.bind_args(info.node.args, args, kwargs, defaults, kwdefaults, node, info.qualname)
        except PyRaise as e:
            yield self.raise_py(e.cls, e.msg), st
            return
        self.ctx.functions_inlined[info.key] += 1
        c = self.contracts.get(info.key)
        if c is not None and c.requires and c.loops and not self.ctx.spec_depth and not self.ctx.concrete_math \
                and not (self.active_contract is not None and c.key == self.active_contract.key
                         and self.call_depth == 0):
            # inlined callee that has a contract: its preconditions are proved here and may be relied
            # upon by the loop invariants inside its body
            f = st.push(info)
            f.vars.update(env)
            line = getattr(node, 'lineno', 0)
            caller = st.frames[st.stack[-2]].finfo.qualname if len(st.stack) > 1 else '?'
            for cl in c.requires:
                goal = self.spec_bool(cl.src, st)
                self.ctx.oblige(st, f'{caller}#pre@callsite:{info.qualname}@L{line}:{cl.label}', 'pre@callsite',
                                'route', goal, line, note=cl.src)
                st.assume(goal)
            st.pop()
            del st.frames[f.fid]
        yield from self.run_body(info, env, st, parent=None)

    def call_closure(self, fn, args, kwargs, st, node):
        a = fn.node.args
        if a.defaults or a.kw_defaults:
            self.err(node, 'nested function with default arguments')
        try:
            env = self.bind_args(a, args, kwargs, [], {}, node, fn.name)
        except PyRaise as e:
            yield self.raise_py(e.cls, e.msg), st
            return
        if isinstance(fn.node, ast.Lambda):
            f = st.push(fn.finfo, parent=fn.fid)
            f.vars.update(env)
            depth = len(st.stack)
            for v, s in self.eval(fn.node.body, st):
                del s.stack[depth - 1:]
                yield v, s
            return
        yield from self.run_body(fn.finfo, env, st, parent=fn.fid, body=fn.node.body, fnode=fn.node)

    def run_body(self, info, env, st, parent=None, body=None, fnode=None):
        if self.call_depth > 60:
            raise EngineError('call depth exceeded (recursion?)')
        f = st.push(info, parent=parent)
        f.vars.update(env)
        depth = len(st.stack)
        self.call_depth += 1
        try:
            for s, flow in self.exec_block(body if body is not None else info.node.body, st):
                del s.stack[depth - 1:]
                if flow is None:
                    yield None, s
                elif flow[0] == 'return':
                    yield flow[1], s
                elif flow[0] == 'raise':
                    yield Raised(flow[1]), s
                else:
                    raise EngineError(f'{flow[0]} outside loop')
        finally:
            self.call_depth -= 1

    def construct(self, cls, args, kwargs, st, node):
        from .intrinsics import construct_builtin
        if is_namedtuple_class(cls):
            fields = cls._fields
            vals = {}
            if len(args) > len(fields):
                yield self.raise_py(TypeError, 'too many fields'), st
                return
            for k, v in zip(fields, args):
                vals[k] = v
            for k, v in kwargs.items():
                if k not in fields or k in vals:
                    yield self.raise_py(TypeError, f'unexpected field {k}'), st
                    return
                vals[k] = v
            defs = getattr(cls, '_field_defaults', {})
            for k in fields:
                if k not in vals:
                    if k in defs:
                        vals[k] = self.lift(defs[k], st)
                    else:
                        yield self.raise_py(TypeError, f'missing field {k}'), st
                        return
            yield SRec(cls, {k: vals[k] for k in fields}), st
            return
        r = construct_builtin(self, cls, args, kwargs, st, node)
        if r is not NotImplemented:
            yield from r
            return
        if issubclass(cls, dict):  # TypedDict
            yield dict(kwargs), st
            return
        obj = SObj(cls)
        try:
            init, k = class_lookup(cls, '__init__')
        except AttributeError:
            init = None
        info = self.index.info_for_pyfunc(init) if isinstance(init, types.FunctionType) else None
        if info is not None:
            for r, s in self.call_value(SBound(init, obj), args, kwargs, st, node):
                if isinstance(r, Raised):
                    yield r, s
                else:
                    yield s.map_value(obj) if hasattr(s, '_memo') and s is not st else obj, s
            return
        dfields = getattr(cls, '__dataclass_fields__', None)
        if dfields is not None and isinstance(init, types.FunctionType):
            import dataclasses
            names = [n for n, fd in dfields.items() if fd.init]
            vals = dict(zip(names, args))
            vals.update(kwargs)
            for n in dfields:
                fd = dfields[n]
                if n not in vals:
                    if fd.default is not dataclasses.MISSING:
                        vals[n] = self.lift(fd.default, st)
                    elif fd.default_factory is not dataclasses.MISSING:
                        self.err(node, 'dataclass default_factory')
                    elif fd.init:
                        yield self.raise_py(TypeError, f'missing {n}'), st
                        return
            obj.fields.update(vals)
            post = getattr(cls, '__post_init__', None)
            if post is not None:
                for r, s in self.call_value(SBound(post, obj), [], {}, st, node):
                    if isinstance(r, Raised):
                        yield r, s
                    else:
                        yield obj_in(s, obj, st), s
                return
            yield obj, st
            return
        if issubclass(cls, BaseException):
            obj.fields['args'] = tuple(args)
            yield obj, st
            return
        if init is object.__init__:
            yield obj, st
            return
        self.err(node, f'constructor of {cls!r}')

    # ==================================================================
    # statements
    def exec_block(self, stmts, st, i=0):
        while i < len(stmts):
            outs = self.exec_stmt(stmts[i], st)
            first = next(outs, None)
            if first is None:
                return
            second = next(outs, None)
            if second is None:
                # single continuation: iterate instead of recursing
                st, flow = first
                if flow is not None:
                    yield st, flow
                    return
                i += 1
                continue
            import itertools
            for s, flow in itertools.chain([first, second], outs):
                if flow is None:
                    yield from self.exec_block(stmts, s, i + 1)
                else:
                    yield s, flow
            return
        yield st, None

    def exec_stmt(self, node, st):
        m = getattr(self, 'x_' + type(node).__name__, None)
        if m is None:
            self.err(node, f'statement {type(node).__name__} outside the subset')
        hook = self.ghost_hooks.get(getattr(node, 'lineno', None))
        yield from m(node, st)

    def x_Pass(self, node, st):
        yield st, None

    def x_Global(self, node, st):
        st.frame.globals_decl.update(node.names)
        yield st, None

    def x_Import(self, node, st):
        self.err(node, 'import inside function')

    x_ImportFrom = x_Import

    def x_Expr(self, node, st):
        if isinstance(node.value, ast.Constant):
            yield st, None
            return
        for v, s in self.eval(node.value, st):
            yield (s, ('raise', v.exc)) if isinstance(v, Raised) else (s, None)

    def x_Return(self, node, st):
        if node.value is None:
            yield st, ('return', None)
            return
        for v, s in self.eval(node.value, st):
            yield (s, ('raise', v.exc)) if isinstance(v, Raised) else (s, ('return', v))

    def x_Break(self, node, st):
        yield st, ('break',)

    def x_Continue(self, node, st):
        yield st, ('continue',)

    def x_FunctionDef(self, node, st):
        if node.decorator_list:
            self.err(node, 'decorated nested function')
        st.frame.vars[node.name] = SFunc(node, st.frame.fid, st.frame.finfo, node.name)
        yield st, None

    def x_Assert(self, node, st):
        for c, s in self.eval(node.test, st):
            if isinstance(c, Raised):
                yield s, ('raise', c.exc)
                continue
            for tv, s1 in self.truthy(c, s):
                for side, s2 in self.fork(s1, tv):
                    if side:
                        yield s2, None
                    else:
                        yield s2, ('raise', self.make_exc(AssertionError))

    def x_Raise(self, node, st):
        if node.exc is None:
            exc = getattr(st, 'handling', None)
            if exc is None:
                self.err(node, 're-raise outside handler')
            yield st, ('raise', exc)
            return
        for v, s in self.eval(node.exc, st):
            if isinstance(v, Raised):
                yield s, ('raise', v.exc)
            elif isinstance(v, type) and issubclass(v, BaseException):
                for e, s1 in self.construct(v, [], {}, s, node):
                    yield s1, ('raise', e.exc if isinstance(e, Raised) else e)
            elif isinstance(v, SObj) and issubclass(v.cls, BaseException):
                yield s, ('raise', v)
            else:
                self.err(node, f'raise of {v!r}')

    def x_Assign(self, node, st):
        for v, s in self.eval(node.value, st):
            if isinstance(v, Raised):
                yield s, ('raise', v.exc)
                continue
            yield from self.assign_targets(node.targets, v, s)

    def assign_targets(self, targets, v, st, i=0):
        if i == len(targets):
            yield st, None
            return
        for r, s in self.assign_target_g(targets[i], v, st):
            if isinstance(r, Raised):
                yield s, ('raise', r.exc)
            else:
                yield from self.assign_targets(targets, v if s is st else v, s, i + 1)

    def assign_target(self, target, v, st):
        """non-forking assignment (Name / tuple of Names)"""
        if isinstance(target, ast.Name):
            self.assign_name(target.id, v, st)
        elif isinstance(target, (ast.Tuple, ast.List)):
            seq = self.as_sequence(v, target)
            n = self.seq_len(seq)
            if is_sym(n) or n != len(target.elts):
                raise EngineError('unpacking length mismatch')
            for k, t in enumerate(target.elts):
                self.assign_target(t, self.seq_elem(seq, k), st)
        else:
            raise EngineError('complex assignment target in non-forking context')

    def assign_target_g(self, target, v, st):
        if isinstance(target, (ast.Name, ast.Tuple, ast.List)) and all(
                isinstance(t, (ast.Name, ast.Tuple, ast.List)) for t in ast.walk(target)
                if isinstance(t, (ast.Attribute, ast.Subscript, ast.Name, ast.Tuple, ast.List))):
            self.assign_target(target, v, st)
            yield None, st
        elif isinstance(target, ast.Attribute):
            for o, s in self.eval(target.value, st):
                if isinstance(o, Raised):
                    yield o, s
                else:
                    yield from self.setattr(o, self.mangle(target.attr, s), v, s, target)
        elif isinstance(target, ast.Subscript):
            for vs, s in self.eval_many([target.value, target.slice], st):
                if isinstance(vs, Raised):
                    yield vs, s
                    continue
                o, i = vs
                yield from self.setitem(o, i, v, s, target)
        elif isinstance(target, (ast.Tuple, ast.List)):
            seq = self.as_sequence(v, target)
            n = self.seq_len(seq)
            if is_sym(n) or n != len(target.elts):
                self.err(target, 'unpacking length mismatch')

            def go(k, s):
                if k == n:
                    yield None, s
                    return
                for r, s1 in self.assign_target_g(target.elts[k], self.seq_elem(seq, k), s):
                    if isinstance(r, Raised):
                        yield r, s1
                    else:
                        yield from go(k + 1, s1)
            yield from go(0, st)
        else:
            self.err(target, 'assignment target')

    def setitem(self, o, i, v, st, node):
        if isinstance(o, dict):
            if is_sym(i):
                self.err(node, 'symbolic dict key')
            o[i] = v
            yield None, st
            return
        if isinstance(o, SList):
            if o.frozen or o.is_tuple:
                self.err(node, 'store into frozen list / tuple')
            n = self.seq_len(o)
            if o.concrete and not is_sym(i):
                if not -n <= i < n:
                    yield self.raise_py(IndexError), st
                    return
                o.items[int(i)] = v
                yield None, st
                return
            inb = b_and(mm.compare('>=', i, 0), mm.compare('<', i, n))
            if inb is not True:
                if inb is False:
                    yield self.raise_py(IndexError), st
                    return
                self.ctx.oblige(st, f'index@L{getattr(node, "lineno", 0)}', 'index', 'safety', inb.t,
                                getattr(node, 'lineno', None))
                st.assume(inb.t)
            self.list_store(o, i, v)
            yield None, st
            return
        if isinstance(o, SObj):
            for r, s in self.call_dunder(o, '__setitem__', [i, v], st, node):
                yield (r if isinstance(r, Raised) else None), s
            return
        self.err(node, f'subscript store on {o!r}')

    def list_store(self, o, i, v):
        if o.concrete:
            items = list(o.items)
            o.elem = lambda j, items=items: self.ite_chain(j, items) if is_sym(j) else items[int(j)]
            o.length = len(items)
            o.items = None
        old = o.elem
        o.elem = lambda j, old=old, i=i, v=v: self.ite(mm.compare('==', j, i), v, old(j))

    def x_AnnAssign(self, node, st):
        if node.value is None:
            yield st, None
            return
        for v, s in self.eval(node.value, st):
            if isinstance(v, Raised):
                yield s, ('raise', v.exc)
                continue
            yield from self.assign_targets([node.target], v, s)

    def x_AugAssign(self, node, st):
        tgt = node.target
        if isinstance(tgt, ast.Name):
            cur = self.lookup(tgt.id, st, tgt)
            for v, s in self.eval(node.value, st):
                if isinstance(v, Raised):
                    yield s, ('raise', v.exc)
                    continue
                cur2 = self.lookup(tgt.id, s, tgt)
                for r, s1 in self.binop(node.op, cur2, v, s, node, inplace=True):
                    if isinstance(r, Raised):
                        yield s1, ('raise', r.exc)
                    else:
                        self.assign_name(tgt.id, r, s1)
                        yield s1, None
        elif isinstance(tgt, ast.Attribute):
            for o, s in self.eval(tgt.value, st):
                if isinstance(o, Raised):
                    yield s, ('raise', o.exc)
                    continue
                for cur, s1 in self.getattr(o, self.mangle(tgt.attr, s), s, tgt):
                    if isinstance(cur, Raised):
                        yield s1, ('raise', cur.exc)
                        continue
                    for v, s2 in self.eval(node.value, s1):
                        if isinstance(v, Raised):
                            yield s2, ('raise', v.exc)
                            continue
                        for r, s3 in self.binop(node.op, cur, v, s2, node, inplace=True):
                            if isinstance(r, Raised):
                                yield s3, ('raise', r.exc)
                                continue
                            o3 = self.reeval_obj(tgt.value, s3, o)
                            for q, s4 in self.setattr(o3, self.mangle(tgt.attr, s3), r, s3, tgt):
                                yield (s4, ('raise', q.exc)) if isinstance(q, Raised) else (s4, None)
        else:
            self.err(node, 'augmented assignment target')

    def reeval_obj(self, expr, st, o):
        """after possible forks, find the current-state copy of object ``o``"""
        if isinstance(o, SObj):
            for v, s in self.eval(expr, st):
                if isinstance(v, SObj) and v.oid == o.oid:
                    return v
        return o

    def x_If(self, node, st):
        for c, s in self.eval(node.test, st):
            if isinstance(c, Raised):
                yield s, ('raise', c.exc)
                continue
            for tv, s1 in self.truthy(c, s):
                if isinstance(tv, Raised):
                    yield s1, ('raise', tv.exc)
                    continue
                for side, s2 in self.fork(s1, tv):
                    yield from self.exec_block(node.body if side else node.orelse, s2)

    def x_Try(self, node, st):
        if node.finalbody:
            self.err(node, 'try/finally')
        classes = []
        for h in node.handlers:
            if h.type is None:
                classes.append(None)
                continue
            for v, s in self.eval(h.type, st):
                if isinstance(v, tuple):
                    classes.append(v)
                elif isinstance(v, type):
                    classes.append((v,))
                else:
                    self.err(node, 'except clause type')
                break
        flat = [c for cs in classes for c in (cs if cs else (None,))]
        if not hasattr(st, 'try_stack'):
            st.try_stack = []
        st.try_stack = st.try_stack + [flat]
        depth = len(st.try_stack)
        for s, flow in self.exec_block(node.body, st):
            s.try_stack = list(getattr(s, 'try_stack', []))[:depth - 1]
            if flow is None:
                if node.orelse:
                    yield from self.exec_block(node.orelse, s)
                else:
                    yield s, None
                continue
            if flow[0] != 'raise':
                yield s, flow
                continue
            exc = flow[1]
            for h, cs in zip(node.handlers, classes):
                if cs is None or any(issubclass(exc.cls, c) for c in cs):
                    if h.name:
                        s.frame.vars[h.name] = exc
                    prev = getattr(s, 'handling', None)
                    s.handling = exc
                    for s2, f2 in self.exec_block(h.body, s):
                        s2.handling = prev
                        if f2 is not None and f2[0] == 'raise' and isinstance(f2[1], SObj):
                            f2[1].fields.setdefault('__cause__', exc)
                        yield s2, f2
                    break
            else:
                yield s, flow

    # -- loops -------------------------------------------------------------------
    def loop_contract(self, node, st):
        c = self.active_contracts_for(st.frame.finfo)
        if c is None:
            return None
        loops = st.frame.finfo.loop_nodes()
        for k, n in enumerate(loops):
            if n is node:
                return c.loops.get(k)
        return None

    def active_contracts_for(self, finfo):
        return self.contracts.get(finfo.key)

    def x_While(self, node, st):
        lc = self.loop_contract(node, st)
        if lc is not None and not self.ctx.concrete_math and not self.force_unroll:
            from .loops import cut_loop
            yield from cut_loop(self, node, st, lc)
            return
        yield from self.unroll_while(node, st, 0)

    def unroll_while(self, node, st, n):
        if n > self.max_unroll:
            self.err(node, 'loop needs an invariant (unrolling bound exceeded)')
        for c, s in self.eval(node.test, st):
            if isinstance(c, Raised):
                yield s, ('raise', c.exc)
                continue
            for tv, s1 in self.truthy(c, s):
                if isinstance(tv, Raised):
                    yield s1, ('raise', tv.exc)
                    continue
                if not isinstance(tv, bool) and not self.force_unroll:
                    self.err(node, 'symbolic loop guard without an invariant')
                for side, s1b in self.fork(s1, tv):
                    if not side:
                        if node.orelse:
                            yield from self.exec_block(node.orelse, s1b)
                        else:
                            yield s1b, None
                        continue
                    if not isinstance(tv, bool) and not self.feasible(s1b):
                        continue
                    for s2, flow in self.exec_block(node.body, s1b):
                        if flow is None or flow[0] == 'continue':
                            yield from self.unroll_while(node, s2, n + 1)
                        elif flow[0] == 'break':
                            yield s2, None
                        else:
                            yield s2, flow

    def x_For(self, node, st):
        lc = self.loop_contract(node, st)
        for it, s in self.eval(node.iter, st):
            if isinstance(it, Raised):
                yield s, ('raise', it.exc)
                continue
            seq = self.as_sequence(it, node)
            n = self.seq_len(seq)
            if lc is not None and not self.ctx.concrete_math and not self.force_unroll and \
                    (is_sym(n) or n > self.max_unroll):
                from .loops import cut_for
                yield from cut_for(self, node, s, lc, seq, n)
                continue
            if is_sym(n):
                self.err(node, 'for-loop over symbolic-length sequence needs an invariant')
            yield from self.unroll_for(node, s, seq, 0, int(n))

    def unroll_for(self, node, st, seq, k, n):
        if n > self.max_unroll:
            self.err(node, 'for-loop too long to unroll')
        if k == n:
            if node.orelse:
                yield from self.exec_block(node.orelse, st)
            else:
                yield st, None
            return
        item = self.seq_elem(seq, k)
        if hasattr(st, '_memo'):
            pass
        for r, s in self.assign_target_g(node.target, item, st):
            if isinstance(r, Raised):
                yield s, ('raise', r.exc)
                continue
            for s2, flow in self.exec_block(node.body, s):
                if flow is None or flow[0] == 'continue':
                    seq2 = s2.map_value(seq) if (s2 is not st and hasattr(s2, '_memo') and
                                                 isinstance(seq, (SList,))) else seq
                    yield from self.unroll_for(node, s2, self.refind(seq, s2), k + 1, n)
                elif flow[0] == 'break':
                    yield s2, None
                else:
                    yield s2, flow

    def refind(self, seq, st):
        """the copy of a mutable sequence object in (possibly cloned) state ``st``"""
        if isinstance(seq, SList):
            found = find_by_oid(st, seq.oid)
            return found if found is not None else seq
        return seq

    def x_With(self, node, st):
        self.err(node, 'with statement')


def obj_in(s, obj, st):
    if s is st:
        return obj
    f = find_by_oid(s, obj.oid)
    return f if f is not None else obj


def find_by_oid(st, oid):
    seen = set()

    def walk(v):
        if isinstance(v, (SObj, SList)):
            if v.oid == oid:
                return v
            if v.oid in seen:
                return None
            seen.add(v.oid)
            kids = v.fields.values() if isinstance(v, SObj) else (v.items or [])
            for k in kids:
                r = walk(k)
                if r is not None:
                    return r
        elif isinstance(v, SRec):
            for k in v.vals.values():
                r = walk(k)
                if r is not None:
                    return r
        elif isinstance(v, (tuple, list)):
            for k in v:
                r = walk(k)
                if r is not None:
                    return r
        elif isinstance(v, dict):
            for k in v.values():
                r = walk(k)
                if r is not None:
                    return r
        elif isinstance(v, SBound):
            return walk(v.selfv)
        return None
    for f in st.frames.values():
        for v in f.vars.values():
            r = walk(v)
            if r is not None:
                return r
    for d in (st.gl, st.cls_over, st.lifted, st.ghost):
        for v in d.values():
            r = walk(v)
            if r is not None:
                return r
    return None
