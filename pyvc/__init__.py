"""pyvc - a small contract-based deductive verifier for a subset of Python.

It re-reads the functions of /repo from disk on every run (``ast``), executes them
symbolically path by path, cuts loops at contract-supplied invariants and calls at
callee contracts (or inlines them), and emits named proof obligations which are
discharged by z3 / cvc5.  See /verif/DESIGN.md section 3.
"""
import os
import sys

REPO = os.environ.get('PYVC_REPO', '/repo')
if REPO not in sys.path:
    sys.path.insert(0, REPO)
sys.setrecursionlimit(20000)
