"""Native (run-time) meaning of the specification helpers.  The same clause text is
evaluated symbolically by the engine (pyvc.specns maps these very function objects to their
symbolic models) and natively, by CPython, when a counterexample is replayed against the
real code or a contract is used as a bounded run-time check.  Pure Python, no z3: must
import under /venv/bin/python."""
import math


def implies(a, b):
    return (not a) or bool(b)


def iff(a, b):
    return bool(a) == bool(b)


def forall(lo, hi, fn):
    return all(fn(i) for i in range(int(lo), int(hi)))


def exists(lo, hi, fn):
    return any(fn(i) for i in range(int(lo), int(hi)))


def ite(c, a, b):
    return a if c else b


def approx(a, b, rel):
    """|a - b| <= rel * |b|"""
    return abs(a - b) <= rel * abs(b)


def close(a, b, tol):
    return abs(a - b) <= tol


def is_none(x):
    return x is None


def same_object(a, b):
    return a is b


def raw(q):
    """base-unit magnitude of a quantity"""
    return q._value


def is_quantity(x):
    return hasattr(x, '_value') and hasattr(x, '_defined_units')


def is_number(x):
    return isinstance(x, (int, float)) and not isinstance(x, bool)


def seq_len(xs):
    return len(xs)


class Struct:
    """plain attribute holder for duck-typed parameters in contracts (native side)"""

    def __repr__(self):
        return f'Struct({vars(self)})'


def _mk(cls, fields):
    o = object.__new__(cls)
    for k, v in fields.items():
        object.__setattr__(o, k, v)
    return o


# tolerance used when a clause that is an exact identity over the reals (A-REAL) is re-checked
# natively in binary64 during replay
REPLAY_REL_TOL = 1e-9


def eq(a, b):
    """equality over the reals; natively: to within REPLAY_REL_TOL (floats round)"""
    if isinstance(a, float) or isinstance(b, float):
        if a == b:
            return True
        if isinstance(a, float) and isinstance(b, float) and (math.isnan(a) or math.isnan(b)):
            return False
        return abs(a - b) <= REPLAY_REL_TOL * max(1.0, abs(a), abs(b))
    return a == b


def idx_of(row, rows=None):
    """index of a row object in the list it was taken from (witness for exists-clauses)"""
    if rows is None:
        raise ValueError('idx_of needs the list natively')
    for i, r in enumerate(rows):
        if r is row:
            return i
    return -1


def uninterpreted(f):
    """a real-valued specification function about which nothing is known except that it is a function (equal
    arguments give equal values).  Encoded as an uninterpreted function; natively it cannot be evaluated."""
    f._uninterpreted = True
    return f


def opaque(f):
    """marks a specification predicate as opaque for the solver: calls are encoded as an
    uninterpreted predicate; a contract listing it under reveal= gets the defining axiom
    (pattern-instantiated).  Natively it is just the function."""
    f._opaque = True
    return f


SPEC_NAMES = ['implies', 'iff', 'forall', 'exists', 'ite', 'approx', 'close', 'is_none', 'same_object', 'raw',
              'is_quantity', 'is_number', 'seq_len', 'eq', 'idx_of']


def is_nan(x):
    return isinstance(x, float) and x != x


SPEC_NAMES.append('is_nan')
