"""Use of a callee's contract at a call site (modular verification): the caller is checked
against requires/ensures/modifies/raises of the callee, never against its body."""
import ast

import z3

from . import mathmodel as mm
from .interp import PyRaise
from .loops import fresh_like
from .values import (SNum, SBool, SObj, SList, SRec, Raised, EngineError, zbool, mk_bool, is_sym)


def apply_contract(ip, c, info, args, kwargs, st, node):
    ctx = ip.ctx
    pyf = info.pyfunc
    if pyf is not None:
        defaults = [ip.lift(d, st) for d in (pyf.__defaults__ or ())]
        kwdefaults = {k: ip.lift(v, st) for k, v in (pyf.__kwdefaults__ or {}).items()}
    else:
        defaults, kwdefaults = [0, None], {'key': None}    # Lib/bisect.py::bisect_left
    try:
        env = ip.bind_args(info.node.args, args, kwargs, defaults, kwdefaults, node, info.qualname)
    except PyRaise as e:
        yield ip.raise_py(e.cls, e.msg), st
        return
    ctx.contracts_used[c.key] += 1
    line = getattr(node, 'lineno', 0)
    # a contract describes the callee for the parameters it lists (the others at their defaults): a call that passes
    # a parameter the contract does not describe is outside the contract - refusing is the only sound answer
    a_ = info.node.args
    names_ = [p.arg for p in a_.posonlyargs + a_.args]
    given_ = set(names_[:len(args)]) | set(kwargs)
    undescribed = sorted(n for n in given_ if n not in c.params and c.params)
    if undescribed:
        raise EngineError(f'contract does not bind: the call of {info.qualname} at line {line} passes {undescribed}, which the '
                          f'contract of {info.qualname} does not describe (it was verified with the default value)')
    if ctx.spec_depth:
        if not c.functional:
            raise EngineError(f'specification calls {info.qualname}, which is used through a non-functional contract')
        f = st.push(info)
        f.vars.update(env)
        r = functional_result(ip, c, info, f.vars)
        st.pop()
        del st.frames[f.fid]
        yield r, st
        return
    caller = st.frame.finfo.qualname
    f = st.push(info)
    f.vars.update(env)
    depth = len(st.stack)
    tag = f'{caller}#pre@callsite:{info.qualname}@L{line}'
    for cl in c.requires:
        goal = ip.spec_bool(cl.src, st)
        ctx.oblige(st, f'{tag}:{cl.label}', 'pre@callsite', 'route', goal, line, note=cl.src)
        st.assume(goal)
    ac = ip.active_contract
    if ac is not None and c.key in getattr(ac, 'at_calls', {}):
        # the caller's own statement about the arguments it passes (a property of the caller, proved here)
        caller_frame = st.stack[depth - 2] if depth >= 2 else None
        extra = {}
        if caller_frame is not None:
            cf = st.frames[caller_frame] if not hasattr(caller_frame, 'vars') else caller_frame
            extra = {f'caller_{k}': v for k, v in cf.vars.items()}
        for cl in ac.at_calls[c.key]:
            goal = ip.spec_bool(cl.src, st, extra=extra)
            o = ctx.oblige(st, f'{caller}#call-args:{info.qualname}@L{line}:{cl.label}', 'call-args', cl.role, goal, line,
                           note=cl.src)
            if o is not None:
                o.clause = cl
    pre = st.clone()
    saved_old = st.old
    # havoc the modifies set
    for m in (c.modifies or ()):
        m = m.replace('normal:', '')
        if m.startswith('*') or m.startswith('<') or m.startswith('PreferredUnits'):
            # pattern entries (display units of any quantity, globals): not tracked at call sites - the instances
            # keep display units concrete, and magnitudes are never in a modifies clause (C13)
            continue
        parts = m.split('.')
        base = f.vars.get(parts[0])
        obj = base
        for p in parts[1:-1]:
            obj = obj.fields[p] if isinstance(obj, SObj) else None
        if obj is None:
            raise EngineError(f'modifies entry {m} of {c.key} does not resolve at the call site')
        last = parts[-1]
        if isinstance(obj, SObj):
            keys = list(obj.fields) if last == '*' else [last]
            for k in keys:
                if k in obj.fields:
                    # the declared shape of the callee's parameter tells the sort of the field (flag words etc.)
                    shp = None
                    psh = c.params.get(parts[0])
                    if len(parts) == 2 and psh is not None and hasattr(psh, 'fields'):
                        shp = psh.fields.get(k)
                        if shp is not None and len(shp.alternatives()) == 1:
                            shp = shp.alternatives()[0]
                        else:
                            shp = None
                    obj.fields[k] = fresh_like(ip, obj.fields[k], f'{info.qualname}.{k}', shp)
        elif isinstance(obj, SList) and last in ('[*]', '*'):
            from .loops import havoc_list
            havoc_list(ip, obj, parts[0])
        else:
            raise EngineError(f'modifies entry {m}: unsupported target')
    # exceptional outcomes
    st.old = pre

    wanted = None
    if ip.active_contract is not None and c.key in ip.active_contract.use:
        wanted = set(ip.active_contract.use[c.key])

    def finish(s, result):
        for cl in c.ensures:
            if wanted is not None and cl.label not in wanted:
                continue
            s.assume(ip.spec_bool(cl.src, s, extra={'result': result}))
        s.old = saved_old
        del s.stack[depth - 1:]
        return s

    branches = [(None, st)]
    for en, cond in c.raises.items():
        nxt = []
        for _, s in branches:
            if cond is None:
                cv = SBool(ctx.fresh_bool(f'raises_{en}'))
            else:
                cv = mk_bool(ip.spec_bool(cond, pre))
            for side, s2 in ip.fork(s, cv):
                if side:
                    cls = _exc_class(info, en)
                    exc = SObj(cls, {'args': (f'<{en} per contract of {info.qualname}>',)})
                    # the callee's clauses about its exception object are not assumed here: callers in this
                    # package only propagate such exceptions
                    s2.old = saved_old
                    del s2.stack[depth - 1:]
                    yield Raised(exc), s2
                else:
                    nxt.append((None, s2))
        branches = nxt
    for _, s in branches:
        if c.functional:
            yield_one = [functional_result(ip, c, info, s.frame.vars)]
        elif c.result_shape is not None:
            alts = c.result_shape.alternatives()
            yield_one = None
            states = [s] + [s.clone() for _ in alts[1:]]
            for alt, s_alt in zip(alts, states):
                result = alt.fresh(ctx, ctx.fresh_name(f'{info.qualname}.result'))
                yield result, finish(s_alt, result)
            continue
        else:
            yield_one = [None]
        yield yield_one[0], finish(s, yield_one[0])


def functional_result(ip, c, info, env):
    """result of a pure function used through its contract: an application of an uninterpreted function to
    its numeric arguments (the object state it reads must be in the caller's frame: checked by the caller's
    modifies clause), so that equal arguments give equal results and specifications can name the value"""
    from .values import zreal, is_num, SNum
    a = info.node.args
    names = [p.arg for p in a.posonlyargs + a.args if p.arg != 'self']
    zs = [zreal(env[n]) for n in names if is_num(env[n])]
    n_out = c.functional_outputs if hasattr(c, 'functional_outputs') else 1
    outs = []
    for k in range(n_out):
        f = ip.ctx.uf(f'{c.functional}{k if n_out > 1 else ""}', *([z3.RealSort()] * (len(zs) + 1)))
        outs.append(SNum(f(*zs)))
        ip.ctx.trusted[f'contract-level function {c.functional}'] += 0
    return outs[0] if n_out == 1 else tuple(outs)


def _exc_class(info, name):
    import builtins
    if name in info.globals:
        return info.globals[name]
    if hasattr(builtins, name):
        return getattr(builtins, name)
    import py_ballisticcalc.exceptions as ex
    if hasattr(ex, name):
        return getattr(ex, name)
    raise EngineError(f'unknown exception class {name}')
