"""Symbolic models of the specification helpers of pyvc.rt (same names, same source text)."""
import ast

import z3

from . import rt
from . import mathmodel as mm
from .intrinsics import INTRINSICS, intrinsic
from .values import (SNum, SBool, SObj, SRec, SList, SFunc, Raised, EngineError, truth, b_and, b_or, b_not,
                     b_implies, mk_bool, mk_num, zbool, zval, is_sym, is_num)

SPEC_NS = {n: getattr(rt, n) for n in rt.SPEC_NAMES}


def _t(ip, v, st):
    outs = list(ip.truthy(v, st))
    if len(outs) != 1:
        raise EngineError('forking truthiness in specification')
    return outs[0][0]


@intrinsic(rt.implies)
def _implies(ip, args, kw, st, node):
    return b_implies(_t(ip, args[0], st), _t(ip, args[1], st))


@intrinsic(rt.iff)
def _iff(ip, args, kw, st, node):
    a, b = _t(ip, args[0], st), _t(ip, args[1], st)
    if isinstance(a, bool) and isinstance(b, bool):
        return a == b
    return mk_bool(zbool(a) == zbool(b))


@intrinsic(rt.ite)
def _ite(ip, args, kw, st, node):
    return ip.ite(_t(ip, args[0], st), args[1], args[2])


def _quant(ip, args, st, universal):
    lo, hi, fn = args
    if not is_sym(lo) and not is_sym(hi) and hi - lo <= 12:
        call = ast.parse('__f(__k)', mode='eval').body
        parts = [mk_bool(ip.spec_bool(call, st, extra={'__f': fn, '__k': int(k)})) for k in range(int(lo), int(hi))]
        return b_and(*parts) if universal else b_or(*parts)
    k = z3.Int(ip.ctx.fresh_name('q'))
    call = ast.parse('__f(__k)', mode='eval').body
    try:
        body = ip.spec_bool(call, st, extra={'__f': fn, '__k': SNum(k)})
    except EngineError as e:
        if 'empty concrete list' not in str(e):
            raise
        # the body indexes a list that is empty on this path: its value is left unconstrained (a fresh
        # boolean), so the quantified formula is provable only where the range itself is empty
        body = z3.Bool(ip.ctx.fresh_name('undefined_body'))
    rng = z3.And(zval(lo) <= k, k < zval(hi))
    if universal:
        return SBool(z3.ForAll([k], z3.Implies(rng, body)))
    return SBool(z3.Exists([k], z3.And(rng, body)))


@intrinsic(rt.forall)
def _forall(ip, args, kw, st, node):
    return _quant(ip, args, st, True)


@intrinsic(rt.exists)
def _exists(ip, args, kw, st, node):
    return _quant(ip, args, st, False)


@intrinsic(rt.approx)
def _approx(ip, args, kw, st, node):
    a, b, rel = args
    d = mm.m_abs(mm.arith(ip.ctx, '-', a, b))
    return mm.compare('<=', d, mm.arith(ip.ctx, '*', rel, mm.m_abs(b)))


@intrinsic(rt.close)
def _close(ip, args, kw, st, node):
    a, b, tol = args
    return mm.compare('<=', mm.m_abs(mm.arith(ip.ctx, '-', a, b)), tol)


@intrinsic(rt.eq)
def _eq(ip, args, kw, st, node):
    a, b = args
    if is_num(a) and is_num(b):
        return mm.compare('==', a, b)
    outs = list(ip.compare_op(ast.Eq(), a, b, st, node))
    if len(outs) != 1:
        raise EngineError('forking eq in specification')
    return outs[0][0]


@intrinsic(rt.is_none)
def _is_none(ip, args, kw, st, node):
    return args[0] is None


@intrinsic(rt.same_object)
def _same_object(ip, args, kw, st, node):
    return ip.identical(args[0], args[1])


@intrinsic(rt.raw)
def _raw(ip, args, kw, st, node):
    q = args[0]
    if isinstance(q, SObj) and '_value' in q.fields:
        return q.fields['_value']
    raise EngineError(f'raw() of {q!r}')


@intrinsic(rt.is_quantity)
def _is_quantity(ip, args, kw, st, node):
    q = args[0]
    return isinstance(q, SObj) and '_value' in q.fields and '_defined_units' in q.fields


@intrinsic(rt.is_number)
def _is_number(ip, args, kw, st, node):
    return is_num(args[0]) and not isinstance(args[0], bool)


@intrinsic(rt.seq_len)
def _seq_len(ip, args, kw, st, node):
    return ip.seq_len(args[0])


@intrinsic(rt.idx_of)
def _idx_of(ip, args, kw, st, node):
    r = args[0]
    vals = r.vals if isinstance(r, SRec) else (r.fields if isinstance(r, SObj) else None)
    if vals is None:
        raise EngineError(f'idx_of({r!r})')
    if '__idx' in vals:
        return vals['__idx']
    # a NamedTuple row: take the index carried by its first object-valued field
    for v in vals.values():
        if isinstance(v, SObj) and '__idx' in v.fields:
            return v.fields['__idx']
    raise EngineError('idx_of: value was not taken from a symbolic list')


@intrinsic(rt.is_nan)
def _is_nan(ip, args, kw, st, node):
    from .values import SOpaque
    return isinstance(args[0], SOpaque) and args[0].tag == 'float:nan'


SPEC_NS['is_nan'] = rt.is_nan
