#!/bin/bash
# Offline setup: nothing is built; verifies that the tooling venv has what the checks need and runs the engine self-test.
cd "$(dirname "$0")"
export PYTHONPATH=/verif:/repo
python3-vt -W ignore -c "import z3, sympy, mpmath, pyvc, pyvc.cli; print('pyvc setup ok: z3', z3.get_version_string())" || exit 1
test -x /usr/bin/cvc5 && echo "cvc5 present" || echo "cvc5 absent (fallback disabled)"
chmod +x check
exit 0
