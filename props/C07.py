"""C07 - preferred units only choose how bare numbers and output are read."""
import ast
import time

LEVEL = 'proof'
EXPLANATION = ('(1) every constructor / method parameter that accepts float-or-quantity is exercised through a harness that '
               'builds the object from the bare number x (under an enumerated preferred unit) and from the explicit '
               'quantity unit(x): the stored magnitudes must coincide for every real x including 0; (2) the same '
               'explicit quantity under two different preferred units must give the same magnitudes (and the same SFP '
               'click counts); (3) an exhaustive ast scan of the package shows that PreferredUnits.<slot> is only ever '
               'read as the callee of a coercion call or inside an output formatter, and that display units '
               '(.units/.unit_value/_defined_units) are never read by the solver, so results computed from explicit '
               'quantities go through identical operations whatever the settings.')
EXTRA = ['scan_preferred_loads']
NOT_DECIDED = ['barrel_elevation_for_target / danger_space bare arguments: they coerce with PreferredUnits.distance(x) as '
               'their first statement (scan obligation) but have no bare-vs-quantity harness; Calculator.fire has the at_calls '
               'clause for the default unit only. Constructors and Atmo.icao: bare_vs_quantity, quantity_under_two_settings and '
               'bare_under_two_settings (the same bare number under two successive settings in one process) for every parameter']

FORMATTERS = {          # functions whose job is to present values in the preferred units
    ('py_ballisticcalc/trajectory_data/_trajectory_data.py', 'TrajectoryData.formatted'),
    ('py_ballisticcalc/trajectory_data/_trajectory_data.py', 'TrajectoryData.in_def_units'),
    ('py_ballisticcalc/trajectory_data/_trajectory_data.py', 'DangerSpace.__str__'),
    ('py_ballisticcalc/trajectory_calc/__init__.py', 'get_global_max_calc_step_size'),
}
SETTERS = {('py_ballisticcalc/unit.py', 'PreferredUnits.set'), ('py_ballisticcalc/unit.py', 'PreferredUnits.defaults'),
           ('py_ballisticcalc/unit.py', '_parse_unit'), ('py_ballisticcalc/unit.py', 'PreferredUnitsMeta.__repr__')}
SOLVER_FILES = ('py_ballisticcalc/trajectory_calc/_trajectory_calc.py', 'py_ballisticcalc/vector/_vector.py',
                'py_ballisticcalc/interface_config.py')
DISPLAY_READERS_OK = {   # reads of a quantity's display unit outside unit.py
    # _adjust_sfp_reticle_steps relabels the computed step in the click size's own unit (display only; the value is
    # computed from raw magnitudes: contract sfp_clicks_under_two_settings)
    ('py_ballisticcalc/munition.py', 'Sight._adjust_sfp_reticle_steps.get_sfp_step'),
}


def scan_preferred_loads(tier, seed):
    from pyvc.scan import package_files, result, obl
    t0 = time.time()
    obls = []
    for rel, path in package_files(exclude=('py_ballisticcalc/visualize/', 'py_ballisticcalc/example.py')):
        tree = ast.parse(open(path, encoding='utf-8').read(), path)
        parents = {}
        for n in ast.walk(tree):
            for c in ast.iter_child_nodes(n):
                parents[c] = n

        def qual(n):
            names = []
            while n in parents:
                n = parents[n]
                if isinstance(n, (ast.FunctionDef, ast.ClassDef)):
                    names.append(n.name)
            return '.'.join(reversed(names))
        for n in ast.walk(tree):
            if isinstance(n, ast.Attribute) and isinstance(n.value, ast.Name) and n.value.id == 'PreferredUnits' \
                    and isinstance(n.ctx, ast.Load) and n.attr not in ('set', 'defaults'):
                q = qual(n)
                par = parents.get(n)
                is_coercion = isinstance(par, ast.Call) and par.func is n and len(par.args) == 1
                ok = is_coercion or (rel, q) in FORMATTERS or (rel, q) in SETTERS
                if rel in SOLVER_FILES:
                    ok = False
                obls.append(obl(f'scan::PreferredUnits.{n.attr}@{rel}:{q}:L{n.lineno}', ok,
                                f'{ast.unparse(par) if par is not None else ast.unparse(n)}  in {q} ({rel}:{n.lineno}): '
                                f'a preferred unit may only be read as the callee of a coercion PreferredUnits.slot(value), '
                                f'or inside an output formatter; never in the solver', kind='dep', line=n.lineno))
            if isinstance(n, ast.Attribute) and n.attr in ('unit_value', 'units', '_defined_units') \
                    and isinstance(n.ctx, ast.Load) and rel != 'py_ballisticcalc/unit.py':
                q = qual(n)
                ok = (rel, q) in DISPLAY_READERS_OK and n.attr == 'units'
                if rel == 'py_ballisticcalc/trajectory_calc/_trajectory_calc.py' and q.startswith('_new_'):
                    ok = False
                obls.append(obl(f'scan::display-unit-read.{n.attr}@{rel}:{q}:L{n.lineno}', ok,
                                f'{ast.unparse(n)} in {q} ({rel}:{n.lineno}): a quantity\'s display unit is read outside '
                                f'unit.py', kind='dep', line=n.lineno))
    if not obls:
        obls.append(obl('scan::nothing-found', False, 'scan found no PreferredUnits load at all (scan broken?)'))
    return result('scan:preferred-unit-loads', obls, t0, props=('C07',))
