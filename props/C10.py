LEVEL = 'other'
EXPLANATION = 'C10 (partial: under construction)'
EXTRA = []
