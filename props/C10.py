"""C10 - results depend only on the arguments: deterministic, isolated, non-mutating."""
import time

from contracts.integrate_rt import rt_integrate  # noqa: F401  (run-time check of the loop contract, bounded)

LEVEL = 'proof'
EXPLANATION = ('Frame conditions (modifies clauses, checked on every path incl. exceptional exits) on every function between the '
               'public API and the integrator: _integrate, zero_angle, trajectory, Calculator.fire / barrel_elevation_for_target '
               'modify nothing of shot, weapon, ammunition, atmosphere, winds or drag table (only the calculator\'s own scratch '
               'fields and display-unit bookkeeping, never a magnitude: C13); set_weapon_zero writes weapon.zero_elevation and '
               'nothing else, and only on normal return. _init_trajectory history harnesses (init_once, init_twice, '
               'init_edit_init): every field the integrator reads is re-derived from the current shot, so a long-used calculator '
               'computes what a fresh one does, also after a run for another shot. Shot.winds returns a sorted COPY (the given '
               'list is not re-ordered). TrajectoryCalc.__init__ keeps its own configuration. Atmosphere cache harness '
               '(query_set_humidity_query). Isolation between calculators and threads: exhaustive ast scan - every write to '
               'module-level or class-level state in the package (global statements, stores through class objects, setattr on '
               'classes, mutating calls on module-level names) sits in one of the documented configuration setters, and none '
               'of those is reachable in an over-approximated (name-based) call graph from Calculator.* / TrajectoryCalc.*; '
               'no random / time / id / hash-order source is reachable either. Hence a computation reads shared state only, '
               'and two calculators never write to a common object unless the caller passes the same Shot to both.')
TEXT = ('frames and history harnesses are proved; "bit-identical under threads" follows from the no-shared-writes scan + '
        'determinism of CPython float arithmetic (A-PY) and is additionally exercised by a bounded threaded run')
NOT_DECIDED = ['fresh vs long-used calculator: zero_angle, trajectory, _init_trajectory, fire, set_weapon_zero and '
               'barrel_elevation_for_target are PROVED for a long-used TrajectoryCalc (every field assigned outside __init__ is a '
               'leftover that may be written but not read before it is written in the call: Built(used_=True)); module- and '
               'class-level containers mutated by package code are refused by the engine (pyvc/scan.py shared_mutable_roots: none '
               'on this tree); Calculator objects themselves carry only _config and _calc',
               'thread interleavings themselves are not modelled (no contract-level concurrency): the argument is absence of '
               'shared writes (scan) - a bounded run with 4 threads stands in',
               'the zero-finding loop re-uses self.barrel_elevation as scratch: two threads sharing ONE calculator are outside '
               'the property (it speaks of several calculators)']
EXTRA_ASSUMPTIONS = ['the name-based call graph over-approximates dynamic dispatch inside the package (getattr/eval are absent '
                     'from the compute path: scanned)', 'CPython float arithmetic and libm are deterministic (A-PY, A-LIBM)']
EXTRA = ['scan_shared_state', 'bounded_threads_and_interleaving', 'rt_integrate']

_MUT = {'append', 'extend', 'update', 'pop', 'clear', 'sort', 'insert', 'remove', 'setdefault', 'popitem', 'add', 'discard',
        'reverse'}
# the documented configuration setters: the only places allowed to write shared state
_SETTERS = {('py_ballisticcalc/logger.py', 'enable_file_logging'), ('py_ballisticcalc/logger.py', 'disable_file_logging'),
            ('py_ballisticcalc/logger.py', 'set_debug'), ('py_ballisticcalc/trajectory_calc/__init__.py', 'reset_globals'),
            ('py_ballisticcalc/trajectory_calc/__init__.py', 'set_global_max_calc_step_size'),
            ('py_ballisticcalc/unit.py', 'PreferredUnits.defaults'), ('py_ballisticcalc/unit.py', 'PreferredUnits.set')}
_NONDET = {'random', 'time', 'perf_counter', 'monotonic', 'urandom', 'uuid4', 'getrandbits', 'id', 'now', 'today', 'getpid'}


def _functions():
    import ast
    from pyvc.scan import package_files
    funcs = {}
    for rel, p in package_files():
        tree = ast.parse(open(p, encoding='utf-8').read())

        def rec(node, stack):
            for ch in ast.iter_child_nodes(node):
                if isinstance(ch, (ast.FunctionDef, ast.AsyncFunctionDef)):
                    funcs[(rel, '.'.join(stack + [ch.name]))] = ch
                    rec(ch, stack + [ch.name])
                elif isinstance(ch, ast.ClassDef):
                    rec(ch, stack + [ch.name])
                else:
                    rec(ch, stack)
        rec(tree, [])
    return funcs


def _shared_writes(fn):
    import ast
    loc = set(a.arg for a in fn.args.posonlyargs + fn.args.args + fn.args.kwonlyargs)
    if fn.args.vararg:
        loc.add(fn.args.vararg.arg)
    if fn.args.kwarg:
        loc.add(fn.args.kwarg.arg)
    glob = set()
    for e in ast.walk(fn):
        if isinstance(e, ast.Global):
            glob.update(e.names)
    for e in ast.walk(fn):
        if isinstance(e, ast.Name) and isinstance(e.ctx, ast.Store) and e.id not in glob:
            loc.add(e.id)

    def base(e):
        while isinstance(e, (ast.Attribute, ast.Subscript)):
            e = e.value
        return e
    hits = []
    for e in ast.walk(fn):
        if isinstance(e, ast.Name) and isinstance(e.ctx, (ast.Store, ast.Del)) and e.id in glob:
            hits.append((e.lineno, f'global {e.id} written'))
        if isinstance(e, (ast.Attribute, ast.Subscript)) and isinstance(e.ctx, (ast.Store, ast.Del)):
            b = base(e)
            if isinstance(b, ast.Name) and (b.id not in loc or b.id == 'cls'):
                hits.append((e.lineno, 'store ' + ast.unparse(e)))
        if isinstance(e, ast.Call) and isinstance(e.func, ast.Attribute) and e.func.attr in _MUT:
            b = base(e.func.value)
            if isinstance(b, ast.Name) and b.id not in loc:
                hits.append((e.lineno, 'mutating call ' + ast.unparse(e)[:80]))
        if isinstance(e, ast.Call) and ast.unparse(e.func) in ('setattr', 'delattr', 'object.__setattr__') and e.args:
            b = base(e.args[0])
            if isinstance(b, ast.Name) and (b.id not in loc or b.id == 'cls'):
                hits.append((e.lineno, 'setattr ' + ast.unparse(e)[:80]))
    return hits


def _callees(fn):
    """names a function may call or reach: every called name, every attribute name (properties, methods passed as
    values), every loaded name, and the dunder methods behind operators - an over-approximation by simple name"""
    import ast
    out = set()
    for e in ast.walk(fn):
        if isinstance(e, ast.Attribute):
            out.add(e.attr)
        if isinstance(e, ast.Name):
            out.add(e.id)
    out.update({'__init__', '__post_init__', '__new__', '__repr__', '__str__', '__format__', '__hash__', '__bool__', '__float__',
                '__len__', '__iter__', '__next__', '__enter__', '__exit__', '__call__', '__getattr__', '__setattr__', '__get__',
                '__set__', '__set_name__', '__add__', '__sub__', '__mul__', '__truediv__', '__rshift__', '__lshift__',
                '__radd__', '__rmul__', '__rsub__', '__rtruediv__', '__floordiv__', '__mod__', '__pow__', '__eq__', '__lt__',
                '__gt__', '__le__', '__ge__', '__ne__', '__contains__', '__neg__', '__pos__', '__abs__', '__getitem__',
                '__setitem__', '__iadd__', '__isub__', '__imul__', '__itruediv__', '__rlshift__', '__rrshift__'})
    return out


def scan_shared_state(tier, seed):
    import ast
    from pyvc.scan import result, obl
    t0 = time.time()
    funcs = _functions()
    byname = {}
    for (rel, q) in funcs:
        byname.setdefault(q.split('.')[-1], []).append((rel, q))
    entries = [k for k in funcs if (k[0].endswith('interface.py') and k[1].startswith('Calculator.'))
               or k[1].startswith('TrajectoryCalc.')]
    seen = set(entries)
    work = list(entries)
    while work:
        k = work.pop()
        for nm in _callees(funcs[k]):
            for k2 in byname.get(nm, []):
                if k2 not in seen:
                    seen.add(k2)
                    work.append(k2)
    obls = []
    writers = 0
    for (rel, q), fn in sorted(funcs.items()):
        for line, what in _shared_writes(fn):
            writers += 1
            in_setter = (rel, q) in _SETTERS
            obls.append(obl(f'scan::shared-write@{rel}:{q}:L{line}', in_setter,
                            f'{what} in {q}: shared (module/class-level) state is written only by the documented '
                            f'configuration setters', kind='frame', line=line))
    for (rel, q) in sorted(_SETTERS):
        present = (rel, q) in funcs
        obls.append(obl(f'scan::setter-not-on-compute-path@{rel}:{q}', present and (rel, q) not in seen,
                        f'{q} is not reachable (name-based over-approximated call graph, {len(seen)} of {len(funcs)} functions '
                        f'reachable) from Calculator.* / TrajectoryCalc.*' + ('' if present else ' [setter not found: scan stale]'),
                        kind='frame'))
    # nondeterminism sources on the compute path
    for (rel, q) in sorted(seen):
        for e in ast.walk(funcs[(rel, q)]):
            if isinstance(e, ast.Call):
                f = e.func
                nm = f.attr if isinstance(f, ast.Attribute) else (f.id if isinstance(f, ast.Name) else None)
                if nm in _NONDET:
                    obls.append(obl(f'scan::nondeterminism@{rel}:{q}:L{e.lineno}', False,
                                    f'{ast.unparse(e)[:60]} on the compute path', kind='dep', line=e.lineno))
    obls.append(obl('scan::compute-path-is-not-empty', len(seen) > 80 and len(entries) >= 8 and writers >= 10,
                    f'{len(entries)} entry points, {len(seen)} reachable functions, {writers} shared-state writes classified '
                    f'(vacuity guard)', kind='frame'))
    return result('scan:shared-state', obls, t0, props=('C10',))


def bounded_threads_and_interleaving(tier, seed):
    """bit-identical rows: repeated, interleaved with other shots (one of which raises), long-used vs fresh calculator,
    4 threads with their own calculators"""
    import threading
    from pyvc.bounded import pkg, mk
    from pyvc.scan import result
    P = pkg()
    t0 = time.time()

    def shot(k):
        if k == 4:      # rifled barrel but no bullet dimensions: nothing of an earlier shot's spin data may survive
            return P.Shot(P.Weapon(P.Unit.Inch(2), P.Unit.Inch(9)), P.Ammo(P.DragModel(0.25, P.TableG1), P.Unit.FPS(1400)),
                          winds=[P.Wind(P.Unit.MPH(4), P.Unit.Degree(90))])
        return P.Shot(P.Weapon(P.Unit.Inch(2), P.Unit.Inch(10 + k), P.Unit.Mil(1 + k)),
                      P.Ammo(P.DragModel(0.2 + 0.05 * k, P.TableG7, P.Unit.Grain(150), P.Unit.Inch(0.308), P.Unit.Inch(1.2)),
                             P.Unit.FPS(2500 + 100 * k)),
                      look_angle=P.Unit.Degree(k), winds=[P.Wind(P.Unit.MPH(5 + k), P.Unit.Degree(40 * k), P.Unit.Yard(150)),
                                                          P.Wind(P.Unit.MPH(2), P.Unit.Degree(270))])

    def rows(calc, s):
        tr = calc.fire(s, P.Unit.Yard(400), P.Unit.Yard(50), extra_data=True).trajectory
        return [tuple(float(getattr(r, f).raw_value) if hasattr(getattr(r, f), 'raw_value') else getattr(r, f)
                      for f in r._fields) for r in tr]
    bad = None
    ref = [rows(P.Calculator(), shot(k)) for k in range(5)]
    used = P.Calculator()
    for k in (2, 0, 3):
        rows(used, shot(k))
    try:
        used.fire(P.Shot(P.Weapon(2, 12), P.Ammo(P.DragModel(0.05, P.TableG1), P.Unit.FPS(300))), P.Unit.Yard(3000), P.Unit.Yard(100))
    except P.RangeError:
        pass
    for k in (4, 0, 1, 4, 2, 3):
        if rows(used, shot(k)) != ref[k] or rows(used, shot(k)) != ref[k]:
            bad = f'long-used calculator differs from a fresh one on shot {k}'
    out = {}

    def work(k):
        c = P.Calculator()
        for _ in range(3):
            out[k] = rows(c, shot(k))
    ths = [threading.Thread(target=work, args=(k,)) for k in range(4)]
    for t in ths:
        t.start()
    for t in ths:
        t.join()
    for k in range(4):
        if out.get(k) != ref[k]:
            bad = f'thread {k} result differs from the serial one'
    return result('bounded:threads', [mk('repeat-interleave-fresh-vs-used-threads-bit-identical', bad is None,
                  '4 shots: fresh vs long-used calculator (after other shots and a RangeError), repeated, and 4 threads x 3 '
                  'runs with own calculators: all rows bit-identical', 4 * 6, t0, bad)], t0, props=('C10',))
