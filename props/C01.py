"""C01 - trajectory is the solution of the point-mass equations of motion."""
import time

from contracts.integrate_rt import rt_integrate  # noqa: F401

LEVEL = 'other'
EXPLANATION = ('Deductive part (all shots, all iterations): the integration loop of TrajectoryCalc._integrate is cut at an '
               'inductive invariant; for an ARBITRARY state at the head of an iteration the step clauses show that the '
               'state at the end of the body is exactly time + dt, v - dt (u * rho(alt0+y) * |u| * D(|u|/c(alt0+y)) - g), '
               'p + dt v\' with u = v - wind in force at the current distance, dt = calc_step / max(1, |u|), rho, c the '
               'atmosphere contract at the CURRENT altitude and D the drag_by_mach contract (drag table and BC): i.e. one '
               'step of the semi-implicit Euler map of the stated vector field, hence consistent with it (first order). '
               'The entry clause gives the initial state (muzzle displaced by the canted sight height, launched along the '
               'barrel direction at muzzle velocity); _init_trajectory harnesses give barrel elevation/azimuth from look, '
               'zero, relative and cant angles. Convergence from consistency is the Lax/Dahlquist theorem (assumed, A-NUM). '
               'Vacuum (second contract on the same loop, tag vacuum: the station density ratio is zero, which the '
               'atmosphere contract propagates to every altitude): with the ghost variable S2 = sum of squared time steps '
               'the invariant v = v0 + g t, p = p0 + v0 t + g (t^2 + S2)/2, 0 <= S2 <= calc_step t is inductive for every '
               'wind, cant, angle and table, so every state lies within |g| calc_step t / 2 of the closed-form parabola '
               '(step clause + lemma_vacuum_bound) - discharged, no longer bounded. '
               'Bounded stand-ins: Richardson step-halving on sampled shots; the vacuum rows are also still compared natively.')
TEXT = ('proof of consistency (every step from every state is the stated Euler map; initial state; wind/density/Mach '
        'arguments are those of the current position; in a vacuum every state is within |g| step t / 2 of the closed-form '
        'parabola, by a ghost-variable invariant) + assumed convergence theorem + bounded error-constant check: the '
        'headline clause (convergence to the exact solution) is not decided deductively, hence "other"')
NOTE = ('A-REAL, A-PY, A-LOG, A-LIBM, A-NUM (a consistent one-step method converges); hypothesis H-fwd (the projectile keeps '
        'moving down-range: part of the statement\'s antecedent); callee contracts assumed at call sites are each verified '
        'on their own; trusted: z3 4.8.12/5.1, cvc5, CPython ast, the VC generator')
ASSUMES = ['A-REAL', 'A-PY', 'A-LOG', 'A-LIBM', 'TOOLS']
EXTRA_ASSUMPTIONS = ['A-NUM: a consistent one-step method for an ODE with locally Lipschitz right-hand side converges with the '
                     'order of its local error (Lax/Dahlquist) - assumed, not proved',
                     'H-fwd: the projectile keeps moving down-range (antecedent of the property), assumed at every step']
NOT_DECIDED = ['convergence to the exact ODE solution as the step is refined (A-NUM)',
               'error at the default step <= small multiple of the step-halving change: bounded stand-in only',
               'vacuum: the STATE after every step is proved to be on the discrete parabola (within |g| calc_step t / 2 of the '
               'closed form); that recorded ROWS, interpolated linearly between two such states, are within the same bound is '
               'the filter contract (C03/C05) composed on paper; "standard gravity" is the configured cGravityConstant, '
               'whose default is checked under C18']
EXTRA = ['bounded_step_halving', 'bounded_vacuum_parabola', 'rt_integrate', 'lemma_vacuum_bound']


def bounded_step_halving(tier, seed):
    """|r_h - r_inf| <= 4 |r_h - r_{h/2}| with r_inf by Richardson from h/2, h/4 (first-order method)"""
    import random
    from pyvc.bounded import pkg, std_shot, mk
    from pyvc.scan import result
    P = pkg()
    rng = random.Random(1000 + seed)
    t0 = time.time()
    n = 6 if tier == 'quick' else 30
    bad = None
    cases = 0
    for k in range(n):
        shot = std_shot(P, rng, look_deg=rng.choice([0, 0, 5, -5]),
                        winds=[P.Wind(P.Unit.MPH(rng.uniform(0, 15)), P.Unit.Degree(rng.uniform(0, 360)))])
        rows = {}
        for h in (0.5, 0.25, 0.125):
            c = P.Calculator(_config={'max_calc_step_size_feet': h})
            rows[h] = c.fire(shot, P.Unit.Yard(600), P.Unit.Yard(200)).trajectory
        # rows are matched by distance (a result may have one row more or less at its end: C03 findings)
        byd = {h: {round(r.distance.raw_value, 3): r for r in rows[h]} for h in rows}
        for i in sorted(set(byd[0.5]) & set(byd[0.25]) & set(byd[0.125]))[1:]:
            for f in ('height', 'windage', 'velocity'):
                a, b, c2 = [(getattr(byd[h][i], f)).raw_value for h in (0.5, 0.25, 0.125)]
                rinf = 2 * c2 - b
                cases += 1
                if abs(a - rinf) > 4 * abs(a - b) + 1e-7 * max(1.0, abs(a)):
                    bad = f'shot #{k} row {i} {f}: r_h={a}, r_h/2={b}, r_h/4={c2}'
    return result('bounded:step-halving', [mk('error-at-default-step-within-4x-the-halving-change', bad is None,
                  'error at the 0.5 ft step <= 4 x change on halving (Richardson reference from h/2, h/4)', cases, t0, bad)],
                  t0, props=('C01',))


def bounded_vacuum_parabola(tier, seed):
    import math
    import random
    from pyvc.bounded import pkg, mk
    from pyvc.scan import result
    P = pkg()
    rng = random.Random(2000 + seed)
    t0 = time.time()
    bad = None
    cases = 0
    for k in range(4 if tier == 'quick' else 20):
        mv = rng.uniform(500, 3000)
        el = rng.uniform(0.1, 8)
        shot = P.Shot(P.Weapon(0, 0), P.Ammo(P.DragModel(0.3, P.TableG7), P.Unit.FPS(mv)), relative_angle=P.Unit.Degree(el),
                      atmo=P.Vacuum())
        tr = P.Calculator().fire(shot, P.Unit.Foot(3000), P.Unit.Foot(1000)).trajectory
        g = 32.17405
        for r in tr[1:]:
            x = r.distance >> P.Unit.Foot
            t = x / (mv * math.cos(math.radians(el)))
            y = mv * math.sin(math.radians(el)) * t - 0.5 * g * t * t
            cases += 1
            # discretisation term 1/2 g sum dt^2 <= 1/2 g t dt_max, dt_max = 0.25 ft / speed
            tol = 0.5 * g * t * (0.25 / (mv * 0.5)) + 1e-6
            if abs((r.height >> P.Unit.Foot) - y) > tol or abs(r.time - t) > 0.25 / (mv * 0.5) + 1e-9:
                bad = f'mv={mv}, elevation={el} deg, x={x}: height {r.height >> P.Unit.Foot} vs parabola {y}'
    return result('bounded:vacuum', [mk('vacuum-trajectory-is-the-closed-form-parabola', bad is None,
                  'vacuum rows vs closed-form parabola under standard gravity (within 1/2 g t dt_max)', cases, t0, bad)],
                  t0, props=('C01',))



def lemma_vacuum_bound(tier, seed):
    """the arithmetic step from the vacuum step clause of _integrate (contracts/integrate.py, tag 'vacuum':
    2 (y - parabola(t)) = g S2 with 0 <= S2 <= h t) to the distance from the closed-form parabola:
    for all g < 0, h > 0, t >= 0, S2, d:  2 d = g S2 and 0 <= S2 <= h t  imply  |d| <= |g| h t / 2.
    Proved once by z3 (nonlinear real arithmetic, no uninterpreted symbols)."""
    import z3
    from pyvc.scan import result, obl
    t0 = time.time()
    g, h, t, S2, d = z3.Reals('g h t S2 d')
    s = z3.Solver()
    s.set('timeout', 60000)
    absd = z3.If(d >= 0, d, -d)
    s.add(g < 0, h > 0, t >= 0, 2 * d == g * S2, 0 <= S2, S2 <= h * t, z3.Not(absd <= (-g) * h * t / 2))
    r = s.check()
    # canary: the bound with a quarter instead of a half must be refutable
    c = z3.Solver()
    c.set('timeout', 60000)
    c.add(g < 0, h > 0, t >= 0, 2 * d == g * S2, 0 <= S2, S2 <= h * t, z3.Not(absd <= (-g) * h * t / 4))
    rc = c.check()
    o = obl('lemma::vacuum-state-within-half-g-times-step-times-time-of-the-closed-form-parabola', r == z3.unsat and rc == z3.sat,
            f'2d = g S2, 0 <= S2 <= h t, g < 0  =>  |d| <= |g| h t / 2 ({r}); canary with 1/4 refuted ({rc})', kind='lemma')
    o['backend'] = 'z3 (QF_NRA)'
    o['time'] = round(time.time() - t0, 3)
    return result('lemma:vacuum-bound', [o], t0, props=('C01',))
