LEVEL = 'other'
EXPLANATION = 'C01 (partial: under construction)'
EXTRA = []
