"""C09 - drag used by the solver is faithful to the drag table and BC definition."""
import time

LEVEL = 'proof'
EXPLANATION = ('calculate_curve (loop invariant: entry k is the parabola through table points k-1..k+1, entry 0 the line through '
               'points 0,1), _get_only_mach_data, the binary search _calculate_by_curve_and_mach_list (invariant, variant, the '
               'selected entry passes through both neighbours of the query; last three points beyond the table) and '
               'drag_by_mach (x 2.08551e-4 / BC) under contract for ANY table of >= 3 strictly ascending points and any Mach; '
               '_init_trajectory history harnesses (fresh calculator, calculator used for another shot, table edited in place '
               'between uses) show the solver\'s curve/table/BC are those of the current shot; make_data_points/DragModel frames. '
               'Shipped tables: the REAL search function is executed symbolically (loop unrolled with forking) on each table '
               'with a symbolic Mach over the whole table span: on every path the selected polynomial is positive and within '
               '5% of the linear interpolant (univariate real arithmetic, all real Mach - not sampling); tables ascending from '
               'Mach 0 and equal to the committed snapshot + literature spot values; the drag constant lemma.')
NOT_DECIDED = ['"are the published tables": snapshot of the pinned tables + three literature spot values (no offline copy of the '
               'publications)']
EXTRA = ['lemma_drag_constant', 'tables_ascending_snapshot'] + [f'table_band_{n}' for n in
                                                                ('G1', 'G7', 'G2', 'G5', 'G6', 'G8', 'GI', 'GS', 'RA4')]


def lemma_drag_constant(tier, seed):
    """2.08551e-04 = standard air density 0.076474 lb/ft^3 x pi / (8 x 144) to 1e-5 relative: the precision at which the
    six-digit standard density itself is given (the literal is 2.5e-6 above the product; the statement gives no tolerance,
    and a first version of this lemma that demanded 1e-6 was a false alarm of the check, see DESIGN.md section 9)"""
    from fractions import Fraction
    from pyvc.scan import result, obl
    t0 = time.time()
    import warnings
    warnings.simplefilter('ignore')
    from py_ballisticcalc.constants import cStandardDensity      # the live constant (lb/ft^3)
    k = Fraction('2.08551e-04')        # the factor pinned by the contract of drag_by_mach (clause drag-is-cd-times-...)
    rho = Fraction(repr(cStandardDensity))
    lo = rho * Fraction('3.14159265358979') / 1152
    hi = rho * Fraction('3.14159265358980') / 1152
    ok = abs(k - lo) <= Fraction(1, 10 ** 5) * lo and abs(k - hi) <= Fraction(1, 10 ** 5) * hi
    o = obl('lemma::drag-constant', ok, f'|2.08551e-04 - cStandardDensity({cStandardDensity})*pi/1152| <= 1e-5 relative (pi enclosed in '
                                        f'[3.14159265358979, 3.14159265358980]; exact rational arithmetic)', kind='lemma')
    o['backend'] = 'exact rational arithmetic'
    return result('lemma:drag-constant', [o], t0, props=('C09',))


def tables_ascending_snapshot(tier, seed):
    import hashlib
    import json
    import os
    import warnings
    warnings.simplefilter('ignore')
    import py_ballisticcalc as P
    from pyvc.scan import result, obl
    t0 = time.time()
    here = os.path.dirname(os.path.dirname(os.path.abspath(__file__)))
    snap = json.load(open(os.path.join(here, 'contracts', 'tables_snapshot.json')))
    obls = []
    for name in ('G1', 'G7', 'G2', 'G5', 'G6', 'G8', 'GI', 'GS', 'RA4'):
        t = getattr(P, 'Table' + name)
        asc = t[0]['Mach'] == 0 and all(a['Mach'] < b['Mach'] for a, b in zip(t, t[1:]))
        obls.append(obl(f'table::{name}-ascending-from-mach-0', asc, f'Table{name}: {len(t)} rows, Mach strictly ascending from 0',
                        kind='enumeration'))
        h = hashlib.sha256(json.dumps([[r['Mach'], r['CD']] for r in t]).encode()).hexdigest()
        obls.append(obl(f'table::{name}-equals-snapshot', h == snap[name], f'Table{name} sha256 {h[:16]}.. equals the committed '
                        f'snapshot of the pinned tables', kind='enumeration'))
    spots = [('G1', 1.0, 0.4805), ('G7', 1.0, 0.3803), ('G1', 0.0, 0.2629)]
    for name, m, cd in spots:
        t = getattr(P, 'Table' + name)
        v = [r['CD'] for r in t if r['Mach'] == m]
        obls.append(obl(f'table::{name}-spot-{m}', v == [cd], f'Table{name}(Mach {m}) = {cd} (published value)', kind='enumeration'))
    for o in obls:
        o['backend'] = 'concrete check of the live tables (exhaustive)'
    return result('tables:ascending-snapshot', obls, t0, props=('C09',))


def _band(name):
    """the real look-up executed symbolically over the whole span of one shipped table"""
    import warnings
    warnings.simplefilter('ignore')
    import z3
    from fractions import Fraction
    import py_ballisticcalc as P
    import py_ballisticcalc.trajectory_calc._trajectory_calc as tc
    from py_ballisticcalc.drag_model import make_data_points
    from pyvc.repoindex import get_index
    from pyvc.state import Ctx, State
    from pyvc.interp import Interp
    from pyvc.values import SNum, SList, SRec, Raised, zreal
    from pyvc.scan import result, obl
    t0 = time.time()
    table = getattr(P, 'Table' + name)
    pts = make_data_points(table)
    curve = tc.calculate_curve(pts)                 # the real function, natively; its floats are exact rationals
    xs = [Fraction(p.Mach) for p in pts]
    ys = [Fraction(p.CD) for p in pts]
    idx = get_index()
    info = idx.find('py_ballisticcalc/trajectory_calc/_trajectory_calc.py', '_calculate_by_curve_and_mach_list')
    ctx = Ctx(f'band:{name}')
    ip = Interp(ctx, idx, {}, {})
    ip.force_unroll = True
    ip.modular = False
    st = State()
    st.push(info)
    mach = z3.Real('mach')
    st.pc.append(mach >= zreal(xs[0]))
    st.pc.append(mach <= zreal(xs[-1]))
    ml = SList(items=list(xs))
    cv = SList(items=[SRec(tc.CurvePoint, {'a': Fraction(c.a), 'b': Fraction(c.b), 'c': Fraction(c.c)}) for c in curve])
    ctx.spec_depth += 1        # no safety obligations: indexes are concrete here
    outs = [(v, list(s.pc)) for v, s in ip.call_function(info, [ml, cv, SNum(mach)], {}, st, None) if not isinstance(v, Raised)]
    ctx.spec_depth -= 1
    obls = []
    bad = []
    n_paths = 0
    for v, pc in outs:
        s0 = z3.Solver()
        s0.add(*pc)
        if s0.check() != z3.sat:
            continue
        n_paths += 1
        val = zreal(v)
        # linear interpolant of the table on the interval containing mach
        disj = []
        for k in range(len(xs) - 1):
            L = zreal(ys[k]) + (zreal(ys[k + 1]) - zreal(ys[k])) / (zreal(xs[k + 1]) - zreal(xs[k])) * (mach - zreal(xs[k]))
            disj.append(z3.And(mach >= zreal(xs[k]), mach <= zreal(xs[k + 1]), val > 0, val - L <= L / 20, L - val <= L / 20))
        s = z3.Solver()
        s.set('timeout', 20000)
        s.add(*pc)
        s.add(z3.Not(z3.Or(*disj)))
        r = s.check()
        if r != z3.unsat:
            bad.append((str(r), str(s.model()[mach]) if r == z3.sat else None))
    ok = not bad and n_paths >= len(xs) - 2
    o = obl(f'table::{name}-positive-and-within-5-percent-of-linear-interpolant', ok,
            f'Table{name}: on all {n_paths} paths of the real look-up over Mach in [{float(xs[0])}, {float(xs[-1])}] the drag '
            f'coefficient used is positive and within 5% of the linear interpolant of the neighbouring entries' +
            (f'; FAILED at {bad[:3]}' if bad else ''), kind='table-band')
    o['backend'] = f'symbolic execution of the real search (loop unrolled, {n_paths} feasible paths) + z3 nonlinear real arithmetic'
    o['time'] = round(time.time() - t0, 2)
    if bad and bad[0][1]:
        o['inputs'] = {'mach': bad[0][1], 'table': name}
    return result(f'table-band:{name}', [o], t0, props=('C09',))


def _mk_band(n):
    def f(tier, seed):
        return _band(n)
    f.__name__ = f'table_band_{n}'
    return f


for _n in ('G1', 'G7', 'G2', 'G5', 'G6', 'G8', 'GI', 'GS', 'RA4'):
    globals()[f'table_band_{_n}'] = _mk_band(_n)
