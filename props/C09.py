LEVEL = 'proof'
EXPLANATION = 'C09 drag look-up'
EXTRA = []
