"""C05 - each row's derived columns are the documented functions of its state."""
LEVEL = 'proof'
EXPLANATION = ('create_trajectory_row under contract for any state: time/distance/height are the state, velocity the given speed, '
               'Mach = speed / local speed of sound, energy and optimal game weight through calculate_energy / calculate_ogw '
               '(each under its own contract: (weight/7000 lb) v^2 / (2 g_n) ft-lb to 1e-4 - the code\'s 450400 - and weight^2 x v^3 '
               'x 1.5e-12 lb), target drop = signed distance to the sight line (y cos(look) - x sin(look)), look distance = '
               'x / cos(look), drop '
               'adjustment = atan(y/x) - look and windage adjustment = atan(windage/x) through get_correction (zero at the '
               'muzzle: contract), angle = atan2(v.y, v.x), windage = z + spin drift. TrajectoryCalc.spin_drift: Litz formula '
               '1.25 (Sg + 1.2) t^1.83 / 12 ft signed by the twist, zero without twist or stability. '
               'calc_stability_coefficient: Miller Sg with the velocity (v/2800)^(1/3) and atmosphere (T, p) corrections, zero '
               'when twist / length / diameter are missing; _init_trajectory harness: the coefficient stored for a shot is '
               'Miller\'s for THIS shot (also on a re-used calculator). The unit constructors _new_feet/_new_fps/... return '
               'fresh quantities with that magnitude. pow and atan are uninterpreted (A-LIBM): the clauses state the same '
               'expression tree, so a changed constant, exponent or argument fails the equality.')
NOT_DECIDED = ['numeric accuracy of libm pow/atan/atan2 themselves (A-LIBM)',
               'that rows returned by should_record for interpolated range rows carry the interpolated state: C03/C11 contracts']
EXTRA = []
