"""C05 - each row's derived columns are the documented functions of its state."""
LEVEL = 'proof'
EXPLANATION = ('create_trajectory_row under contract for any state: time/distance/height are the state, velocity the given speed, '
               'Mach = speed / local speed of sound, energy and optimal game weight through calculate_energy / calculate_ogw '
               '(each under its own contract: (weight/7000 lb) v^2 / (2 g_n) ft-lb to 1e-4 - the code\'s 450400 - and weight^2 x v^3 '
               'x 1.5e-12 lb), target drop = signed distance to the sight line (y cos(look) - x sin(look)), look distance = '
               'x / cos(look), drop '
               'adjustment = atan(y/x) - look and windage adjustment = atan(windage/x) through get_correction (zero at the '
               'muzzle: contract), angle = atan2(v.y, v.x), windage = z + spin drift. TrajectoryCalc.spin_drift: Litz formula '
               '1.25 (Sg + 1.2) t^1.83 / 12 ft signed by the twist, zero without twist or stability. '
               'calc_stability_coefficient: Miller Sg with the velocity (v/2800)^(1/3) and atmosphere (T, p) corrections, zero '
               'when twist / length / diameter are missing; _init_trajectory harness: the coefficient stored for a shot is '
               'Miller\'s for THIS shot (also on a re-used calculator). The unit constructors _new_feet/_new_fps/... return '
               'fresh quantities with that magnitude. pow and atan are uninterpreted (A-LIBM): the clauses state the same '
               'expression tree, so a changed constant, exponent or argument fails the equality.')
NOT_DECIDED = ['numeric accuracy of libm pow/atan/atan2 themselves (A-LIBM)',
               'that rows returned by should_record for interpolated range rows carry the interpolated state: C03/C11 contracts']
EXTRA = []
import time  # noqa: E402

EXTRA = ['bounded_spin_drift_history']


def bounded_spin_drift_history(tier, seed):
    """spin drift is present with twist and bullet dimensions, signed by the twist direction, and absent without them -
    also on a calculator that has just computed a shot that had them"""
    from pyvc.bounded import pkg, mk
    from pyvc.scan import result
    P = pkg()
    t0 = time.time()
    bad = None

    def shot(twist, dims=True):
        dm = P.DragModel(0.3, P.TableG7, P.Unit.Grain(168), P.Unit.Inch(0.308), P.Unit.Inch(1.2)) if dims else \
            P.DragModel(0.3, P.TableG7)
        return P.Shot(P.Weapon(P.Unit.Inch(2), P.Unit.Inch(twist)), P.Ammo(dm, P.Unit.FPS(2600)))

    def windage(calc, s):
        return calc.fire(s, P.Unit.Yard(500), P.Unit.Yard(500)).trajectory[-1].windage >> P.Unit.Inch
    calc = P.Calculator()
    r, l = windage(calc, shot(12)), windage(calc, shot(-12))
    if not (r > 0.5 and abs(r + l) < 1e-9):
        bad = f'right-hand twist drifts {r} in, left-hand twist {l} in at 500 yd (expected opposite, about 2 in)'
    for name, s in (('no twist', shot(0)), ('no bullet dimensions', shot(12, dims=False))):
        windage(calc, shot(12))                      # history: a shot with spin data first
        w = windage(calc, s)
        if w != 0:
            bad = f'{name}: windage {w} in at 500 yd without wind on a calculator used before for a spinning bullet'
    # same rifle and load, another atmosphere: the stability correction is that of the CURRENT atmosphere
    hot = P.Atmo(altitude=P.Unit.Foot(5000), temperature=P.Unit.Fahrenheit(100), pressure=P.Unit.InHg(24))
    s_std, s_hot = shot(12), shot(12)
    s_hot.atmo = hot
    windage(calc, s_std)
    w_used, w_fresh = windage(calc, s_hot), windage(P.Calculator(), s_hot)
    if w_used != w_fresh:
        bad = (f'same load in another atmosphere: windage {w_used} in on a calculator used before in standard atmosphere, '
               f'{w_fresh} in on a fresh one')
    return result('bounded:spin-drift-history', [mk('spin-drift-signed-by-twist-absent-without-twist-or-dimensions', bad is None,
                  '168 gr .308 at 2600 fps, 500 yd, no wind: +/- drift for right/left twist; exactly zero windage without twist '
                  'or without bullet dimensions, computed on a calculator that has just fired a spinning bullet', 4, t0, bad)],
                  t0, props=('C05',))
