"""C16 - danger space is the contiguous stretch of trajectory within the target."""
LEVEL = 'proof'
EXPLANATION = ('HitResult.danger_space under contract for any trajectory of any length (quantified clauses, two scan loops with '
               'invariants): the target row is the first row at or beyond the requested range (index_at_distance contract); the '
               'begin / end rows bracket it; every row strictly between has |drop - target drop| <= half the target height '
               '(two-sided - the one-sided comparison repaired in f0de995 failed exactly this invariant); each bound is the '
               'first / last row or a row at least half a height away; the target height is passed through; asking beyond the '
               'trajectory raises ArithmeticError, without extra data AttributeError. Monotonicity in the target height is a '
               'lemma over the two clauses (a larger height keeps every interior row interior).')
NOT_DECIDED = ['the interpolated end points inside DangerSpace (begin/end are rows; the property speaks of rows)']
EXTRA = ['lemma_monotone_in_target_height']


def lemma_monotone_in_target_height(tier, seed):
    """over the two bracket clauses of danger_space (begin-/end-brackets-...): a larger target height gives a begin index
    that is not later and an end index that is not earlier, for any trajectory (drop an uninterpreted function of the row)"""
    import time
    import z3
    from pyvc.scan import result, obl
    t0 = time.time()
    D = z3.Function('drop', z3.IntSort(), z3.RealSort())
    b, b2, e, e2, ci, n, k = z3.Ints('b b2 e e2 ci n k')
    h, h2 = z3.Reals('h h2')

    def dev(i):
        d = D(i) - D(ci)
        return z3.If(d >= 0, d, -d)

    def post_b(b, h):
        return z3.And(0 <= b, b <= ci, z3.ForAll([k], z3.Implies(z3.And(b + 1 <= k, k < ci), dev(k) < h / 2)),
                      z3.Or(b == 0, dev(b) >= h / 2))

    def post_e(e, h):
        return z3.And(ci <= e, e <= n - 1, z3.ForAll([k], z3.Implies(z3.And(ci + 1 <= k, k < e), dev(k) < h / 2)),
                      z3.Or(e == n - 1, dev(e) >= h / 2))
    obls = []
    for name, hyp, goal in (('begin-not-later', [post_b(b, h), post_b(b2, h2)], b2 <= b),
                            ('end-not-earlier', [post_e(e, h), post_e(e2, h2)], e2 >= e)):
        s = z3.Solver()
        s.set('timeout', 20000)
        s.add(0 <= ci, ci < n, 0 < h, h <= h2, *hyp, z3.Not(goal))      # a zero-height target is degenerate
        r = s.check()
        o = obl(f'lemma::larger-target-height-{name}', r == z3.unsat,
                f'from the bracket clauses for heights 0 < h <= h2: {goal} ({r})', kind='lemma')
        o['backend'] = 'z3'
        o['result'] = 'unsat' if r == z3.unsat else ('unknown' if r == z3.unknown else 'sat')
        obls.append(o)
    return result('lemma:danger-space-monotone', obls, t0, props=('C16',))
