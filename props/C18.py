LEVEL = 'other'
EXPLANATION = 'C18 (partial: under construction)'
EXTRA = []
