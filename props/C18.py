"""C18 - configuration is honoured, local to its calculator, and parsed faithfully."""
import os
import tempfile
import time

from contracts.integrate_rt import rt_integrate  # noqa: F401

LEVEL = 'proof'
TEXT = ('configuration merge, locality (the solver reads settings only from its own Config; module defaults are read only '
        'where a Config is created), the global setter and its history (configurations created after / before it), name and '
        'alias parsing in every letter case (normal-form abstraction + exhaustive enumeration of the live alias table) are '
        'proved / exhaustively enumerated; the step bound is proved as "time step x max(1, pre-step air speed) = half the '
        'configured maximum" and measured by a bounded stand-in; one recorded finding (C18-step-low-speed: below ~3 fps of '
        'air speed a step exceeds the maximum, reachable only with cMinimumVelocity lowered) is printed as KNOWN-FINDING')
EXPLANATION = ('create_interface_config merge for none/each/all/pairs of the 8 settings and the unknown-key rejection; '
               'TrajectoryCalc.__init__ keeps its own Config and builds gravity from it; get_calc_step; the global step '
               'setter / reset with the global modelled as state; every enumeration name and every alias of the live '
               'UnitAliases table through _parse_unit and PreferredUnits.set with the input abstracted to its normal form '
               'strip().lower() (one symbolic instance per normal form = all letter cases and surrounding blanks; any other '
               'use of the raw string is an engine error); exhaustive ast scan that the module-level default constants are '
               'read only by create_interface_config; exhaustive concrete enumeration (back end E) of value strings with '
               'numeric prefixes and of the TOML calculator section.')
EXTRA = ['scan_setting_reads', 'enumerate_value_strings', 'toml_calculator_section', 'bounded_step_bound',
         'bounded_step_bound_low_speed', 'bounded_global_setter_history', 'rt_integrate']
NOT_DECIDED = ['"no integration step advances the projectile through the air by more than the configured maximum step" is '
               'decided only as: time step x max(1, pre-step air speed) = half the configured maximum (step clause of '
               '_integrate); the growth of the air speed within the step (<= |g| dt) is not machine-checked, and fails '
               'below ~3 fps air speed (dt saturates at calc_step): RECORDED FINDING C18-step-low-speed, re-checked on every run by a bounded obligation',
               'the regular expressions of _parse_value are trusted (re is not verified)']


def scan_setting_reads(tier, seed):
    """the module-level defaults (cZeroFindingAccuracy ... _globalMaxCalcStepSizeFeet) are read only where a
    configuration is created; the solver reads its settings from self._config only"""
    import ast
    from pyvc.scan import package_files, result, obl
    t0 = time.time()
    names = {'cZeroFindingAccuracy', 'cMinimumVelocity', 'cMaximumDrop', 'cMaxIterations', 'cGravityConstant',
             'cMinimumAltitude', '_globalMaxCalcStepSizeFeet', '_globalChartResolution'}
    allowed_files = {'py_ballisticcalc/interface_config.py', 'py_ballisticcalc/trajectory_calc/__init__.py'}
    obls = []
    for rel, path in package_files():
        tree = ast.parse(open(path, encoding='utf-8').read(), path)
        for n in ast.walk(tree):
            nm = n.id if isinstance(n, ast.Name) else (n.attr if isinstance(n, ast.Attribute) else None)
            if nm in names and isinstance(getattr(n, 'ctx', None), ast.Load):
                # self._config.cXxx / _config.cXxx reads are the intended use sites
                via_config = isinstance(n, ast.Attribute) and ast.unparse(n.value).endswith('_config')
                ok = via_config or rel in allowed_files
                obls.append(obl(f'scan::setting-read.{nm}@{rel}:L{n.lineno}', ok,
                                f'{ast.unparse(n)} ({rel}:{n.lineno}): a setting is read from the calculator\'s own Config, '
                                f'module-level defaults only where a Config is created', kind='dep', line=n.lineno))
        if rel == 'py_ballisticcalc/trajectory_calc/_trajectory_calc.py':
            for n in ast.walk(tree):
                if isinstance(n, (ast.Assign, ast.AugAssign)):
                    for t in (n.targets if isinstance(n, ast.Assign) else [n.target]):
                        if isinstance(t, ast.Attribute) and t.attr in ('_config', 'gravity_vector'):
                            q = [f.name for f in ast.walk(tree) if isinstance(f, ast.FunctionDef)
                                 and f.lineno <= n.lineno <= f.end_lineno]
                            ok = q[-1:] == ['__init__']
                            obls.append(obl(f'scan::config-store@{rel}:L{n.lineno}', ok,
                                            f'{ast.unparse(t)} assigned in {q[-1:]}: the configuration and the gravity vector '
                                            f'are set once, in __init__', kind='frame', line=n.lineno))
    return result('scan:setting-reads', obls, t0, props=('C18',))


def _variants(name):
    return sorted({name, name.lower(), name.upper(), name.title(), name.swapcase(), f'  {name} ', f'\\t{name.upper()}'.replace('\\t', '\t')})


def enumerate_value_strings(tier, seed):
    """back end E: every enumeration name and alias x letter-case variants x numeric prefixes through the real
    _parse_value / _parse_unit / PreferredUnits.set (concrete execution, exhaustive over the finite tables)"""
    import warnings
    warnings.simplefilter('ignore')
    from py_ballisticcalc.unit import Unit, UnitAliases, _parse_unit, _parse_value, PreferredUnits, AbstractDimension
    from pyvc.scan import result, obl
    t0 = time.time()
    table = {}
    for u in Unit:
        table.setdefault(u.name, u)
    for als, u in UnitAliases.items():
        for a in als:
            table.setdefault(a, u)
    bad = []
    n = 0
    for name, u in table.items():
        for v in _variants(name):
            n += 1
            if _parse_unit(v) is not u:
                bad.append(f'_parse_unit({v!r}) -> {_parse_unit(v)!r}, expected {u!r}')
            for prefix, num in (('1', 1.0), ('-2.5', -2.5), ('.5', 0.5), ('3.', 3.0)):
                n += 1
                try:
                    q = _parse_value(prefix + v, None)
                    ok = isinstance(q, AbstractDimension) and q.units is u and abs(q.unit_value - num) <= 1e-9 * max(1, abs(num))
                except Exception as e:  # noqa
                    ok, q = False, repr(e)
                if not ok:
                    bad.append(f'_parse_value({prefix + v!r}) -> {q!r}, expected {num} {u!r}')
            slot = 'angular' if int(u) < 10 else 'distance'
            saved = getattr(PreferredUnits, slot)
            PreferredUnits.set(**{slot: v})
            if getattr(PreferredUnits, slot) is not u:
                bad.append(f'PreferredUnits.set({slot}={v!r}) -> {getattr(PreferredUnits, slot)!r}, expected {u!r}')
            setattr(PreferredUnits, slot, saved)
    obls = [obl('enumerate::names-and-aliases-resolve', not bad,
                f'{n} (name | alias) x letter-case x numeric-prefix combinations of the live Unit / UnitAliases tables resolve to '
                f'their unit through _parse_unit, _parse_value and PreferredUnits.set' + (f'; FAILED: {bad[:5]}' if bad else ''),
                kind='enumeration')]
    obls[0]['backend'] = f'concrete execution of the real functions, exhaustive over the tables ({n} cases)'
    if bad:
        obls[0]['replay_native'] = ('import sys\nsys.path.insert(0, "/repo")\nfrom py_ballisticcalc.unit import *\n'
                                    'from py_ballisticcalc.unit import _parse_unit, _parse_value\n'
                                    f'print({bad[0]!r})\nsys.exit(1)\n')
    return result('enumerate:value-strings', obls, t0, props=('C18',))


def toml_calculator_section(tier, seed):
    """the [pybc.calculator] max_calc_step_size unit name of a configuration file, in any letter case / alias"""
    import warnings
    warnings.simplefilter('ignore')
    import py_ballisticcalc as P
    from py_ballisticcalc import trajectory_calc as T
    from pyvc.scan import result, obl
    t0 = time.time()
    bad = []
    cases = [('Foot', 2.0, 2.0), ('foot', 2.0, 2.0), ('FT', 3.0, 3.0), ('Meter', 1.0, 1 / 0.3048), ('m', 0.5, 0.5 / 0.3048),
             ('inch', 6.0, 0.5)]
    saved = T._globalMaxCalcStepSizeFeet
    for name, val, feet in cases:
        with tempfile.NamedTemporaryFile('w', suffix='.toml', delete=False) as fh:
            fh.write('[pybc.preferred_units]\ndistance = "Yard"\n[pybc.calculator]\n'
                     f'max_calc_step_size = {{ value = {val}, units = "{name}" }}\n')
            path = fh.name
        try:
            T.reset_globals()
            P._load_config(path, suppress_warnings=True)
            got = T._globalMaxCalcStepSizeFeet
            if abs(got - feet) > 1e-6 * feet:
                bad.append(f'units = "{name}", value = {val}: default step {got} ft, expected {feet} ft')
        finally:
            os.unlink(path)
    T._globalMaxCalcStepSizeFeet = saved
    P.PreferredUnits.defaults()
    o = obl('enumerate::toml-calculator-units', not bad,
            'configuration-file unit names (enumeration name or alias, any letter case) select that unit for the global '
            'maximum step' + (f'; FAILED: {bad}' if bad else ''), kind='enumeration')
    o['backend'] = f'concrete execution of the real _load_config on {len(cases)} generated files'
    if bad:
        o['replay_native'] = ('import sys\nprint(' + repr(bad[0]) + ')\nsys.exit(1)\n')
    return result('enumerate:toml', [o], t0, props=('C18',))


def _max_air_step(P, calc, shot, wind_fps=(0.0, 0.0)):
    """largest advance through the air between successive integration states (time_step tiny: every state is a row)"""
    import math
    try:
        tr = calc.fire(shot, P.Unit.Yard(60), P.Unit.Yard(60), extra_data=True, time_step=1e-9).trajectory
    except P.RangeError as e:
        tr = e.incomplete_trajectory
    mx = 0.0
    for a, b in zip(tr, tr[1:]):
        dt = b.time - a.time
        dx = (b.distance >> P.Unit.Foot) - (a.distance >> P.Unit.Foot) - wind_fps[0] * dt
        dy = (b.height >> P.Unit.Foot) - (a.height >> P.Unit.Foot)
        dz = (b.windage >> P.Unit.Foot) - (a.windage >> P.Unit.Foot) - wind_fps[1] * dt
        mx = max(mx, math.sqrt(dx * dx + dy * dy + dz * dz))
    return mx, len(tr)


def bounded_step_bound(tier, seed):
    import random
    from pyvc.bounded import pkg, mk
    from pyvc.scan import result
    P = pkg()
    rng = random.Random(1800 + seed)
    t0 = time.time()
    bad = None
    cases = 0
    for k in range(4 if tier == 'quick' else 20):
        mstep = rng.choice([0.5, 0.2, 1.0])
        calc = P.Calculator(_config={'max_calc_step_size_feet': mstep})
        shot = P.Shot(P.Weapon(P.Unit.Inch(2), 0), P.Ammo(P.DragModel(rng.uniform(0.1, 0.6), P.TableG7), P.Unit.FPS(rng.uniform(300, 3200))),
                      relative_angle=P.Unit.Degree(rng.uniform(-10, 60)))
        mx, n = _max_air_step(P, calc, shot)
        cases += 1
        if n < 50:
            bad = f'case {k}: only {n} rows (check broken?)'
        if mx > mstep * (1 + 1e-9):
            bad = f'case {k}: a step of {mx} ft with maximum step {mstep} ft'
    return result('bounded:step-bound', [mk('no-step-longer-than-the-configured-maximum-at-default-velocity-limit', bad is None,
                  'random loads and elevations, maximum step 0.2/0.5/1.0 ft, default 50 fps velocity limit, no wind: every '
                  'integration step advances by at most the configured maximum', cases, t0, bad)], t0, props=('C18',))


def bounded_step_bound_low_speed(tier, seed):
    """RECORDED FINDING C18-step-low-speed: below 1 fps of air speed the time step saturates at calc_step seconds and
    gravity alone moves the projectile further than the maximum step (only reachable with cMinimumVelocity lowered)"""
    from pyvc.bounded import pkg, mk
    from pyvc.scan import result
    P = pkg()
    t0 = time.time()
    calc = P.Calculator(_config={'cMinimumVelocity': 0, 'cMaximumDrop': -10})
    shot = P.Shot(P.Weapon(P.Unit.Inch(2), 0), P.Ammo(P.DragModel(0.3, P.TableG7), P.Unit.FPS(100)), relative_angle=P.Unit.Degree(90))
    mx, n = _max_air_step(P, calc, shot)
    ok = mx <= 0.5 * (1 + 1e-9)
    return result('bounded:step-bound-low-speed', [mk('no-step-longer-than-the-configured-maximum-near-zero-speed', ok,
                  'vertical 100 fps shot with cMinimumVelocity = 0 (apex reached at ~0 fps), default 0.5 ft maximum step', 1, t0,
                  None if ok else f'a step of {mx:.3f} ft near the apex')], t0, props=('C18',))


def bounded_global_setter_history(tier, seed):
    """the global default-step setter governs calculators created afterwards (their configuration AND the steps they
    take) and leaves calculators created before alone; explicit per-calculator steps win"""
    from pyvc.bounded import pkg, mk
    from pyvc.scan import result
    P = pkg()
    t0 = time.time()
    bad = None
    shot = P.Shot(P.Weapon(P.Unit.Inch(2), 0), P.Ammo(P.DragModel(0.3, P.TableG7), P.Unit.FPS(2600)))
    try:
        before = P.Calculator()
        for v in (0.1, 2.0):
            P.set_global_max_calc_step_size(P.Unit.Foot(v))
            after, own = P.Calculator(), P.Calculator(_config={'max_calc_step_size_feet': 0.3})
            mx_a, n = _max_air_step(P, after, shot)
            mx_b, _ = _max_air_step(P, before, shot)
            mx_o, _ = _max_air_step(P, own, shot)
            if abs(after._calc._config.max_calc_step_size_feet - v) > 1e-12 or not (0.45 * v < mx_a <= v * (1 + 1e-9)):
                bad = f'after set({v} ft): a new calculator is configured with {after._calc._config.max_calc_step_size_feet} ft and steps {mx_a} ft'
            if not (0.2 < mx_b <= 0.5 * (1 + 1e-9)):
                bad = f'after set({v} ft): a calculator created before steps {mx_b} ft (its own maximum is 0.5 ft)'
            if not (0.12 < mx_o <= 0.3 * (1 + 1e-9)):
                bad = f'after set({v} ft): a calculator with its own 0.3 ft maximum steps {mx_o} ft'
        try:
            P.set_global_max_calc_step_size(0)
            bad = 'set_global_max_calc_step_size(0) was accepted'
        except ValueError:
            pass
    finally:
        P.reset_globals()
    return result('bounded:global-setter-history', [mk('global-default-step-governs-later-calculators-only', bad is None,
                  'set_global_max_calc_step_size(0.1 ft / 2 ft): configuration and measured steps of calculators created after, '
                  'before, and with their own step; non-positive value rejected', 6, t0, bad)], t0, props=('C18',))
