"""C11 - what is recorded never changes what is computed."""
import time

from contracts.integrate_rt import rt_integrate  # noqa: F401

LEVEL = 'proof'
EXPLANATION = ('_integrate loop under contract with a dependency (non-interference) clause: the physics variables '
               '(range_vector, velocity_vector, time, wind_vector, wind-sock position) at the end of every iteration are '
               'functions of their values at the loop head and of the shot/calculator only - never of data_filter, ranges, '
               'record_step, time_step (dep obligations: two-run product of the loop body with the recording state havocked '
               'independently, for filter_flags 0 and 31); the step clauses give the same update whatever is recorded. '
               '_TrajectoryDataFilter.should_record under contract for every filter state: a range row lies exactly at the '
               'record distance, is interpolated with ONE ratio in [0,1] between the previous and the current integration '
               'state (so it is a function of those two states and the record distance only); other rows are the current '
               'state; the flag word is the union of what was raised, so extra-data output = plain rows + flagged rows. The '
               'loop bound depends on the requested range only through the exit test (post-condition).')
TEXT = ('per-step non-interference (dependency clause), the invariant "the integration step is the one the calculator was '
        'initialised with", the row-construction contracts and what trajectory()/fire() pass to the integrator are proved; '
        'the whole-trajectory corollary (same row at the same distance for two different requests) is their induction over '
        'the steps and is exercised by a bounded stand-in; one recorded finding (C11-substep-recording: a recording step '
        'below the integration step skips rows) is printed as KNOWN-FINDING; the step > range terminal row is recorded '
        'under C03')
NOT_DECIDED = ['RECORDED FINDING C11-substep-recording (known_findings.json, re-checked on every run): with a recording step '
               'below the integration step at most one row per integration step is produced and the row at the requested '
               'range is lost, so such a card is not a superset of a coarser one',
               'the induction over steps that turns per-step non-interference into equality of whole result lists is on paper '
               '(DESIGN.md 5, C11); bounded stand-in compares requests',
               'the float drift of the accumulated record distance between different steps (A-REAL): rows agree to rounding, '
               'bounded']
EXTRA = ['bounded_request_independence', 'bounded_substep_recording', 'rt_integrate']


def bounded_request_independence(tier, seed):
    import random
    from pyvc.bounded import pkg, std_shot, mk
    from pyvc.scan import result
    P = pkg()
    rng = random.Random(1100 + seed)
    t0 = time.time()
    bad = None
    cases = 0

    def key(r):
        return round(r.distance >> P.Unit.Foot, 6)

    def vals(r):
        return [r.time, r.velocity >> P.Unit.FPS, r.height >> P.Unit.Foot, r.windage >> P.Unit.Foot, r.mach,
                r.energy >> P.Unit.FootPound, r.angle >> P.Unit.Radian]

    def same(a, b):
        return all(abs(x - y) <= 1e-9 * max(1.0, abs(x), abs(y)) for x, y in zip(vals(a), vals(b)))
    for k in range(6 if tier == 'quick' else 18):
        # one to three wind segments; segment ends between 15 and 140 yd so that the requests below end on both sides
        # of small multiples of them (a wind field that depends on the requested range shows up)
        nseg = 1 + k % 3
        ends = sorted(rng.uniform(15, 70) * (j + 1) for j in range(nseg - 1))
        winds = [P.Wind(P.Unit.MPH(rng.uniform(3, 20)), P.Unit.Degree(rng.uniform(0, 360)), P.Unit.Yard(e)) for e in ends]
        winds.append(P.Wind(P.Unit.MPH(rng.uniform(0, 15)), P.Unit.Degree(rng.uniform(0, 360))))
        shot = std_shot(P, rng, look_deg=rng.choice([0.0, 3.0]), winds=winds)
        calc = P.Calculator()
        calc.set_weapon_zero(shot, P.Unit.Yard(100))
        base = calc.fire(shot, P.Unit.Yard(600), P.Unit.Yard(50)).trajectory
        idx = {key(r): r for r in base}
        variants = {
            'shorter range': calc.fire(shot, P.Unit.Yard(300), P.Unit.Yard(50)).trajectory,
            'much shorter range': calc.fire(shot, P.Unit.Yard(150), P.Unit.Yard(50)).trajectory,
            'longer range': P.Calculator().fire(shot, P.Unit.Yard(1000), P.Unit.Yard(50)).trajectory,
            'coarser step': calc.fire(shot, P.Unit.Yard(600), P.Unit.Yard(150)).trajectory,
            'finer step': calc.fire(shot, P.Unit.Yard(600), P.Unit.Yard(25)).trajectory,
            'time step': calc.fire(shot, P.Unit.Yard(600), P.Unit.Yard(50), time_step=0.05).trajectory,
            'extra data': calc.fire(shot, P.Unit.Yard(600), P.Unit.Yard(50), extra_data=True).trajectory,
        }
        # a recording step below the integration step (0.1 ft < 0.25 ft) against a 10 ft step over a short range
        fine = {key(r): r for r in calc.fire(shot, P.Unit.Foot(60), P.Unit.Foot(0.1)).trajectory}
        coarse = calc.fire(shot, P.Unit.Foot(60), P.Unit.Foot(10)).trajectory
        cases += 1
        both = [r for r in coarse if key(r) in fine]
        for r in both:       # presence of every row is the separate obligation bounded_substep_recording (recorded finding)
            if not same(r, fine[key(r)]):
                bad = f'sub-step recording: row at {key(r)} ft differs: {vals(r)} vs {vals(fine[key(r)])}'
        for name, tr in variants.items():
            cases += 1
            got = {key(r): r for r in tr}
            common = [d for d in idx if d in got]
            if name in ('shorter range', 'much shorter range') and not all(d in idx for d in got):
                bad = f'{name}: a row of the shorter request is missing from the longer one'
            if name == 'coarser step' and not all(d in idx for d in got):
                bad = f'{name}: a row of the coarser request is missing from the finer one'
            if name in ('finer step', 'extra data') and not all(d in got for d in idx):
                bad = f'{name}: a row of the plain request is missing from the richer one'
            if name == 'extra data':
                extra_rows = [r for r in tr if key(r) not in idx]
                if any(r.flag & ~P.TrajFlag.RANGE == 0 for r in extra_rows):
                    bad = f'{name}: an additional row carries no event flag'
            if len(common) < 3:
                bad = f'{name}: fewer than 3 common rows (check broken?)'
            for d in common:
                if not same(idx[d], got[d]):
                    bad = f'{name}: row at {d} ft differs: {vals(idx[d])} vs {vals(got[d])}'
    return result('bounded:request-independence', [mk('same-row-at-the-same-distance-whatever-the-request', bad is None,
                  'rows at common distances agree to 1e-9 relative across shorter range / coarser / finer step / time step / '
                  'extra data; subset relations; extra rows are flagged', cases, t0, bad)], t0, props=('C11',))


def bounded_substep_recording(tier, seed):
    """RECORDED FINDING C11-substep-recording: a recording step below the integration step (0.1 ft < 0.25 ft)"""
    from pyvc.bounded import pkg, mk
    from pyvc.scan import result
    P = pkg()
    t0 = time.time()
    shot = P.Shot(P.Weapon(P.Unit.Inch(2), P.Unit.Inch(12)), P.Ammo(P.DragModel(0.3, P.TableG7), P.Unit.FPS(2600)))
    fine = [round(r.distance >> P.Unit.Foot, 6) for r in P.Calculator().fire(shot, P.Unit.Foot(50), P.Unit.Foot(0.1)).trajectory]
    coarse = [round(r.distance >> P.Unit.Foot, 6) for r in P.Calculator().fire(shot, P.Unit.Foot(50), P.Unit.Foot(10)).trajectory]
    missing = [d for d in coarse if d not in fine]
    return result('bounded:substep-recording', [mk('finer-than-the-integration-step-card-contains-the-coarser-card', not missing,
                  '2600 fps G7 0.3 load, range 50 ft: every row of the 10 ft card is present in the 0.1 ft card', 1, t0,
                  f'rows at {missing} ft of the 10 ft card are missing from the 0.1 ft card ({len(fine)} rows, last at '
                  f'{fine[-1]} ft)' if missing else None)], t0, props=('C11',))
