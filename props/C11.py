LEVEL = 'other'
EXPLANATION = 'C11 (under construction)'
EXTRA = []
