"""C08 - atmosphere reproduces the ISA and is self-consistent across altitude."""
import math
import time

LEVEL = 'proof'
EXPLANATION = ('Branch structure, station values, vacuum, humidity normalisation and range check: SMT contracts on the Atmo '
               'methods. Numeric clauses (ISA closeness 1e-4 over -1400..36000 ft, 30-ft shortcut jump, monotonicity in '
               'pressure/temperature/humidity, CIPM denominators away from zero): interval branch-and-bound over the '
               'whole continuous box on the closed-form expressions the symbolic executor extracts from the real '
               'functions (Atmo.icao, Atmo.__init__, calculate_air_density, get_density_factor_and_mach_for_altitude).')
EXTRA = ['isa_temperature_pressure', 'isa_density', 'isa_sound', 'shortcut_jump', 'monotone_density', 'cipm_denominators',
         'cross_altitude']
ASSUMES = ['A-REAL', 'A-PY', 'A-LOG', 'A-LIBM', 'TOOLS']
NOT_DECIDED = ['fidelity of the CIPM-2007 coefficients to the CIPM paper (not in the statement beyond ISA closeness and '
               'monotonicity; no copy offline)']
TOL = 1e-4
H_BOX = (-1400.0, 36000.0)


def _isa(h_ft):
    """ISA reference (sympy) from the property statement: T[K], p[hPa], density ratio, a[fps]"""
    import sympy
    h = h_ft * sympy.Rational(3048, 10000)
    T = sympy.Rational(28815, 100) - sympy.Rational(65, 10000) * h
    expo = sympy.Rational(980665, 100000) * sympy.Rational(289644, 10000000) / (
        sympy.Rational(83144598, 10000000) * sympy.Rational(65, 10000))
    p = sympy.Rational(101325, 100) * (T / sympy.Rational(28815, 100)) ** expo
    rho = (p / sympy.Rational(101325, 100)) * (sympy.Rational(28815, 100) / T)
    a = sympy.sqrt(sympy.Rational(14, 10) * sympy.Rational(28705287, 100000) * T) / sympy.Rational(3048, 10000)
    return T, p, rho, a


def _paths(harness, names):
    from pyvc.interval import extract, z3_to_sympy
    import z3
    outs, ctx = extract(harness, names)
    syms = {}
    res = []
    for v, pc in outs:
        vals = v if isinstance(v, tuple) else (v,)
        from pyvc.values import zreal
        exprs = [z3_to_sympy(zreal(x), syms) for x in vals]
        conds = [z3_to_sympy(c, syms) for c in pc]
        res.append((exprs, conds))
    return res, syms


def _select(paths, env):
    """the path whose condition holds on the whole box env (None if undecided)"""
    from pyvc.interval import eval_cond
    live = []
    for exprs, conds in paths:
        rs = [eval_cond(c, env) for c in conds]
        if any(r is False for r in rs):
            continue
        if all(r is True for r in rs):
            return exprs
        live.append(exprs)
    return None


def _close_pred(paths, idx, ref, tol, scale=None):
    from pyvc.interval import eval_fi, FI

    def pred(env):
        ex = _select(paths, env)
        if ex is None:
            return None
        c = eval_fi(ex[idx] if scale is None else scale(ex[idx]), env)
        r = eval_fi(ref, env)
        d = c / r - 1.0
        if -tol <= d.lo and d.hi <= tol:
            return True
        if d.lo > tol or d.hi < -tol:
            return False
        return None
    return pred


def _run(name, clause, pred, box, t0, props=('C08',), max_leaves=600000, time_limit=500):
    from pyvc.interval import prove_on_box
    from pyvc.scan import result
    r = prove_on_box(pred, box, max_leaves=max_leaves, time_limit=time_limit)
    o = {'name': f'interval::{name}', 'short': name, 'kind': 'interval', 'role': 'clause', 'result': r['result'],
         'expect': 'unsat', 'ok': r['result'] == 'unsat', 'time': r['seconds'],
         'backend': f'interval branch-and-bound ({r["leaves"]} leaves, depth {r["depth"]})', 'line': None,
         'note': clause + f'  over box {box}', 'props': []}
    if r['result'] == 'sat':
        o['inputs'] = r['witness']
    if r['result'] == 'unknown':
        o['note'] += f'   [undecided box: {r.get("undecided_box")}]'
    return o


def isa_temperature_pressure(tier, seed):
    import sympy
    from pyvc.scan import result
    t0 = time.time()
    paths, syms = _paths('h_standard_station', ['h_ft'])
    h = syms['h_ft']
    T, p, rho, a = _isa(h)
    obls = [
        _run('isa-temperature', 'standard atmosphere temperature within 1e-4 (relative, kelvin) of ISA 288.15 - 0.0065 h',
             _close_pred(paths, 0, T, TOL, scale=lambda e: e + sympy.Rational(27315, 100)), {'h_ft': H_BOX}, t0),
        _run('isa-pressure', 'standard atmosphere pressure within 1e-4 relative of ISA barometric formula',
             _close_pred(paths, 1, p, TOL), {'h_ft': H_BOX}, t0),
    ]
    return result('interval:isa-temperature-pressure', obls, t0, props=('C08',))


def isa_density(tier, seed):
    from pyvc.scan import result
    t0 = time.time()
    paths, syms = _paths('h_standard_station', ['h_ft'])
    T, p, rho, a = _isa(syms['h_ft'])
    obls = [_run('isa-density-ratio', 'standard atmosphere density ratio within 1e-4 relative of ISA (p/p0)(T0/T)',
                 _close_pred(paths, 2, rho, TOL), {'h_ft': H_BOX}, t0)]
    return result('interval:isa-density', obls, t0, props=('C08',))


def isa_sound(tier, seed):
    from pyvc.scan import result
    t0 = time.time()
    paths, syms = _paths('h_standard_station', ['h_ft'])
    T, p, rho, a = _isa(syms['h_ft'])
    obls = [_run('isa-speed-of-sound', 'standard atmosphere speed of sound within 1e-4 relative of sqrt(1.4 R T)',
                 _close_pred(paths, 3, a, TOL), {'h_ft': H_BOX}, t0)]
    return result('interval:isa-sound', obls, t0, props=('C08',))


def shortcut_jump(tier, seed):
    """the value used inside the 30-ft band (the station's own) differs from the formula just outside it by no
    more than the 30-ft lapse: for density the hydrostatic change over 30 ft, g M / (R T) x 9.144 m; for the
    speed of sound half the relative temperature lapse over 30 ft (+1e-5 for the fps/mps constants)"""
    from pyvc.interval import eval_fi
    from pyvc.scan import result
    t0 = time.time()
    paths, syms = _paths('h_shortcut_jump', ['t_c', 'd_ft'])
    obls = []
    import sympy
    tk = syms['t_c'] + sympy.Rational(27315, 100) - sympy.Rational(6, 100)     # coldest absolute temperature in the band
    bounds = {'density': sympy.Rational(9144, 1000) * sympy.Rational(341632, 10000000) / tk,
              'speed-of-sound': sympy.Rational(1, 2) * sympy.Rational(65, 10000) * sympy.Rational(9144, 1000) / tk
              + sympy.Rational(3, 100000)}
    for side, dbox in (('above', (30.0, 30.0)), ('below', (-30.0, -30.0))):
        for idx, what in ((0, 'density'), (1, 'speed-of-sound')):
            def pred(env, idx=idx, what=what):
                ex = _select(paths, env)
                if ex is None:
                    return None
                d = eval_fi(ex[idx], env) - 1.0
                b = eval_fi(bounds[what], env)
                if -b.lo <= d.lo and d.hi <= b.lo:
                    return True
                if d.lo > b.hi or d.hi < -b.hi:
                    return False
                return None
            bound = 'the 30-ft lapse'  # noqa
            obls.append(_run(f'shortcut-jump-{what}-{side}',
                             f'|{what}(station altitude {side} by 30 ft) / station value - 1| <= {bound}', pred,
                             {'t_c': (-60.0, 60.0), 'd_ft': dbox}, t0))
    return result('interval:shortcut-jump', obls, t0, props=('C08',))


def monotone_density(tier, seed):
    """density ratio rises with pressure, falls with temperature and with humidity: sign of the partial
    derivative (sympy derivative of the extracted expression, enclosed over the whole box)"""
    import sympy
    from pyvc.interval import eval_fi
    from pyvc.scan import result
    t0 = time.time()
    paths, syms = _paths('h_density_ratio', ['t_c', 'p_hpa', 'hum'])
    assert len(paths) == 1
    rho = paths[0][0][0]
    box = {'t_c': (-60.0, 60.0), 'p_hpa': (500.0, 1100.0), 'hum': (0.0, 1.0)}
    obls = []
    for var, sign, what in (('p_hpa', 1, 'rises-with-pressure'), ('t_c', -1, 'falls-with-temperature'),
                            ('hum', -1, 'falls-with-humidity')):
        d = sympy.diff(rho, syms[var])

        def pred(env, d=d, sign=sign):
            v = eval_fi(d, env)
            if sign > 0:
                return True if v.lo > 0 else (False if v.hi <= 0 else None)
            return True if v.hi < 0 else (False if v.lo >= 0 else None)
        obls.append(_run(f'density-{what}', f'd(density ratio)/d({var}) {"> 0" if sign > 0 else "< 0"}', pred, box, t0,
                         time_limit=400))
    return result('interval:monotone-density', obls, t0, props=('C08',))


def cipm_denominators(tier, seed):
    """no denominator of calculate_air_density vanishes on the box of its contract: T_K > 0 is immediate from the
    box; the compressibility factor Z stays within 1e-3 of 1"""
    import sympy
    from pyvc.interval import eval_fi
    from pyvc.scan import result
    t0 = time.time()
    # the density itself is finite and positive on the whole box <=> every denominator is away from zero there
    paths, syms = _paths('h_density_ratio', ['t_c', 'p_hpa', 'hum'])
    rho = paths[0][0][0]

    def pred(env):
        v = eval_fi(rho, env)      # raises ZeroDivisionError (-> undecided) if a denominator encloses 0
        return True if v.lo > 0 else (False if v.hi <= 0 else None)
    box = {'t_c': (-90.0, 60.0), 'p_hpa': (150.0, 1100.0), 'hum': (0.0, 1.0)}
    obls = [_run('cipm-denominators', 'calculate_air_density is finite and positive (no denominator encloses 0)',
                 pred, box, t0)]
    return result('interval:cipm-denominators', obls, t0, props=('C08',))


def _combine_pows(expr):
    """product expression: merge factors base**E with one and the same non-integer exponent E into
    (cancelled product of bases)**E  - the pow product rule, exact over the positive reals"""
    import sympy
    num, den = sympy.fraction(expr)
    groups = {}
    rest = sympy.Integer(1)
    for side, sgn in ((num, 1), (den, -1)):
        for f in sympy.Mul.make_args(side):
            if f.is_Pow and not f.exp.is_Integer:
                groups[f.exp] = groups.get(f.exp, sympy.Integer(1)) * f.base ** sgn
            else:
                rest = rest * f ** sgn
    out = _one_plus(rest)
    for e, b in groups.items():
        out = out * sympy.Pow(_one_plus(b), e, evaluate=False)
    return out


def _one_plus(r):
    """a rational function that is close to 1 is rewritten 1 + (N - D)/D with the difference cancelled
    symbolically, so that its interval evaluation does not suffer from the dependency between N and D"""
    import sympy
    d = sympy.cancel(sympy.together(r) - 1)
    return sympy.Add(sympy.Integer(1), d, evaluate=False)


def cross_altitude(tier, seed):
    """a standard station at a0 queried at h (outside the 30-ft band) predicts the density ratio and speed of
    sound of the standard station at h.  Decided by reduction (DESIGN.md 5/C08): (a) the predicted temperature is the
    standard one at h, (b) the predicted pressure is the standard one at h (pow product rule, then a rational
    function within 1e-9 of 1), (c) for ANY two dry states the density prediction formula agrees with the density a
    station at the second state reports up to the ratio of the two compressibility factors, (d) speed of sound.
    Each is an interval obligation over the whole box; together they give the clause to 1e-4."""
    import sympy
    from pyvc.interval import eval_fi
    from pyvc.scan import result
    t0 = time.time()
    box2 = {'a0_ft': H_BOX, 'h_ft': H_BOX}
    tp, syms = _paths('h_station_tp_at', ['a0_ft', 'h_ft'])
    sp, syms2 = _paths('h_standard_station', ['h_ft'])
    syms.update(syms2)
    obls = []

    def ratio_pred(get_expr, tol):
        cache = {}

        def pred(env):
            a = _select(tp, env)
            b = _select(sp, env)
            if a is None or b is None:
                return None
            key = (id(a), id(b))
            if key not in cache:
                cache[key] = get_expr(a, b)
            d = eval_fi(cache[key], env) - 1.0
            if -tol <= d.lo and d.hi <= tol:
                return True
            if d.lo > tol or d.hi < -tol:
                return False
            return None
        return pred
    K = sympy.Rational(27315, 100)
    obls.append(_run('cross-altitude-temperature', 'absolute temperature predicted at h by the standard station at a0 '
                     '/ standard temperature at h within 1e-6 (temperatures above the -130F floor)',
                     ratio_pred(lambda a, b: _one_plus((a[0] + K) / (b[0] + K)), 1e-6), box2, t0, time_limit=120))
    obls.append(_run('cross-altitude-pressure', 'pressure predicted at h by the standard station at a0 / standard '
                     'pressure at h within 1e-6', ratio_pred(lambda a, b: _combine_pows(a[1] / b[1]), 1e-6), box2, t0,
                     time_limit=120))
    dp, syms3 = _paths('h_density_prediction_ratio', ['t0', 'p0', 't', 'p'])
    rexpr = _one_plus(dp[0][0][0])

    def pred_c(env):
        d = eval_fi(rexpr, env) - 1.0
        return True if (-5e-5 <= d.lo and d.hi <= 5e-5) else (False if (d.lo > 5e-5 or d.hi < -5e-5) else None)
    obls.append(_run('cross-altitude-density-formula', 'density predicted for state (t, p) from a dry station (t0, p0) / '
                     'density a dry station at (t, p) reports  within 5e-5 (ratio of compressibility factors)', pred_c,
                     {'t0': (-90.0, 60.0), 'p0': (150.0, 1100.0), 't': (-90.0, 60.0), 'p': (150.0, 1100.0)}, t0,
                     time_limit=120))
    qp, syms4 = _paths('h_query_from_station', ['a0_ft', 'h_ft'])

    # the formula branch (|h - a0| >= 30) is checked as an expression over the whole square - a superset of the
    # region where the code uses it
    qp = [(ex, [c for c in conds if 'Piecewise' not in str(c)]) for ex, conds in qp
          if any('Piecewise' in str(c) and '>= 30' in str(c) for c in conds)]

    def pred_d(env):
        q = _select(qp, env)
        s_ = _select(sp, env)
        if q is None or s_ is None:
            return None
        key = (id(q), id(s_))
        if key not in pred_d.cache:
            sq = sympy.simplify((q[1] / s_[3]) ** 2)       # ratio of the radicands: a rational function
            pred_d.cache[key] = sympy.sqrt(_one_plus(sq))
        d = eval_fi(pred_d.cache[key], env) - 1.0
        return True if (-TOL <= d.lo and d.hi <= TOL) else (False if (d.lo > TOL or d.hi < -TOL) else None)
    pred_d.cache = {}
    obls.append(_run('cross-altitude-speed-of-sound', 'speed of sound predicted at h by the standard station at a0 / '
                     'that of the standard station at h within 1e-4 (outside the 30-ft band)', pred_d, box2, t0,
                     max_leaves=300000, time_limit=200))
    return result('interval:cross-altitude', obls, t0, props=('C08',))
