"""C20 - trajectory look-ups return the first row satisfying the query."""
LEVEL = 'proof'
EXPLANATION = ('HitResult.index_at_distance / get_at_distance, helpers find_index_of_point_for_distance, '
               'find_time_for_distance_in_shot, find_index_for_time_point (strict and nearest variants), '
               'find_index_of_apex_in_points, find_index_of_point_with_flag, find_velocity_less_than_index under contract for '
               'trajectories of ANY length (quantified post-conditions; next(genexp, default) modelled as first-match; bisect '
               'through the contract of Lib/bisect.py::bisect_left, whose body is itself verified with its loop invariant): '
               'the result is the first row, in order, whose distance / time is at least the requested value, else the '
               'documented sentinel (-1, NaN) or ArithmeticError; the nearest-time variant minimises |time difference|, takes '
               'the earlier row on ties and respects the allowed deviation (the empty-trajectory IndexError and the tie repaired '
               'in 49c63da / e263fef failed these obligations); negative arguments raise ValueError; the apex helper returns '
               'the highest row (first of equals) of a single-peaked trajectory.')
NOT_DECIDED = ['rows must be in ascending time for the bisect-based helper (precondition taken from C03)']
EXTRA = []
