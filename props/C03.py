LEVEL = 'other'
EXPLANATION = 'C03 (under construction)'
EXTRA = []
