"""C03 - range card has exactly one row at every requested distance, muzzle to range."""
import time

from contracts.integrate_rt import rt_integrate  # noqa: F401

LEVEL = 'other'
TEXT = ('deductive proof of the per-step clauses (a range row lies exactly at the record distance and is the last multiple not '
        'beyond the projectile, no multiple skipped under H-adv, one interpolation ratio, muzzle state first, loop left only '
        'beyond range + min step, what trajectory()/fire() pass to the integrator: the requested horizontal range and step, '
        'range/10 by default); the row COUNT over a whole card is assembled from them on paper and checked by a bounded '
        'stand-in only, and two recorded findings (tail-wind last row, step > range) are violations of the statement on the '
        'unchanged tree - hence "other", not "proof"')
EXPLANATION = ('_TrajectoryDataFilter.should_record under contract for EVERY filter state and step (540 paths): a range row lies '
               'exactly at the record distance (interpolation identity), the record distance is the last multiple not beyond '
               'the projectile, no multiple is skipped when a step advances by at most the record step (hypothesis H-adv of the '
               'statement), every field of the row uses one interpolation ratio in [0,1], time rows only when the time step has '
               'passed; inner skip loop with variant. _integrate: entry clause (first state is the muzzle state: time 0, muzzle '
               'velocity along the barrel, canted sight-height offset) and no rows yet / first record distance 0; loop exit only '
               'beyond range + min(calc step, record step); rows are built from the filter\'s data by create_trajectory_row '
               '(contract: distance/height/time are the state). Calculator.fire: frame; default step. The float drift of the '
               'accumulated record distance is outside A-REAL: bounded stand-in with long fine-step cards.')
NOT_DECIDED = ['the global row-count argument (exactly one row per multiple up to the range) is assembled from the per-step '
               'clauses by induction on the steps under H-fwd / H-adv; the ghost-counter invariant next_record_distance = j x '
               'step over the whole loop was not built (DESIGN.md Appendix A INV03), so the count itself is only checked by the '
               'bounded stand-in',
               'two RECORDED FINDINGS (known_findings.json, each re-checked on every run by a bounded obligation): last row lost '
               'with a tail-wind component (C03-tail-wind), extra terminal row when the step exceeds the range '
               '(C03-step-exceeds-range)',
               'float rounding of the accumulated record distance (A-REAL): bounded']
EXTRA_ASSUMPTIONS = ['H-fwd / H-adv: the projectile keeps moving forward and advances by at most the record step per '
                     'integration step (antecedent of the property)']
EXTRA = ['bounded_row_structure', 'bounded_tail_wind_last_row', 'bounded_step_exceeds_range', 'rt_integrate']


def bounded_row_structure(tier, seed):
    import random
    from pyvc.bounded import pkg, std_shot, mk
    from pyvc.scan import result
    P = pkg()
    rng = random.Random(4000 + seed)
    t0 = time.time()
    bad = None
    cases = 0
    plan = [(P.Unit.Meter(2500), P.Unit.Meter(0.25)), (P.Unit.Yard(1000), P.Unit.Yard(100)), (P.Unit.Foot(700), P.Unit.Foot(0.7)),
            (P.Unit.Meter(1000), P.Unit.Meter(300))]
    if tier != 'quick':
        plan += [(P.Unit.Yard(3000), P.Unit.Yard(0.2)), (P.Unit.Meter(800), P.Unit.Meter(7))]
    looks = [0.0, 15.0, 0.0, -10.0, 0.0, 20.0]       # the requested range is horizontal, whatever the sight line
    for k, (rng_q, step_q) in enumerate(plan):
        shot = std_shot(P, rng, mv=2900, bc=0.5, table=P.TableG7,
                        winds=[P.Wind(P.Unit.MPH(5), P.Unit.Degree(rng.choice([90, 180, 270])))],
                        look_deg=looks[k % len(looks)])
        if looks[k % len(looks)]:
            shot.relative_angle = P.Unit.Degree(0.3)
        shot.cant_angle = P.Unit.Degree(rng.choice([0, -20, 15]))
        tr = P.Calculator().fire(shot, rng_q, step_q).trajectory
        R, S = rng_q.raw_value, step_q.raw_value
        n_exp = int(R / S + 1e-9) + 1
        cases += 1
        if not (n_exp <= len(tr) <= n_exp + 1):
            bad = f'range {rng_q}, step {step_q}: {len(tr)} rows, expected {n_exp} (or {n_exp + 1})'
            continue
        for i, r in enumerate(tr[:n_exp]):
            if abs(r.distance.raw_value - i * S) > 1e-6 * max(1.0, i * S):
                bad = f'range {rng_q}, step {step_q}: row {i} at {r.distance.raw_value} in, expected {i * S}'
                break
        import math
        sh = shot.weapon.sight_height >> P.Unit.Foot
        c = shot.cant_angle >> P.Unit.Radian
        f = tr[0]
        if abs(f.time) > 0 or abs((f.height >> P.Unit.Foot) + math.cos(c) * sh) > 1e-9 or \
                abs((f.windage >> P.Unit.Foot) + math.sin(c) * sh) > 1e-9:
            bad = f'first row is not the muzzle state: time {f.time}, height {f.height}, windage {f.windage}, cant {c}'
    tr = P.Calculator().fire(std_shot(P, rng, mv=2700, bc=0.3), P.Unit.Yard(500)).trajectory
    if len(tr) != 11:
        bad = f'default step: {len(tr)} rows, expected 11'
    return result('bounded:row-structure', [mk('one-row-per-multiple-first-row-muzzle-default-step', bad is None,
                  'row count, row distances, first row and default step on long fine-step cards (float drift of the '
                  'accumulated record distance is outside A-REAL)', cases, t0, bad)], t0, props=('C03',))


def bounded_tail_wind_last_row(tier, seed):
    """RECORDED FINDING C03-tail-wind: with a tail-wind component one integration step advances the projectile by more than
    min(calc_step, record_step) over the ground, so the loop bound range + min_step can be overshot before the row at the
    requested range has been interpolated"""
    from pyvc.bounded import pkg, mk
    from pyvc.scan import result
    P = pkg()
    t0 = time.time()
    missing = []
    cases = 0
    for R in range(321, 329):
        shot = P.Shot(P.Weapon(P.Unit.Inch(2), P.Unit.Inch(12)), P.Ammo(P.DragModel(0.3, P.TableG7), P.Unit.FPS(800)),
                      winds=[P.Wind(P.Unit.FPS(64), P.Unit.Degree(0))])
        tr = P.Calculator().fire(shot, P.Unit.Yard(R), P.Unit.Yard(R)).trajectory
        cases += 1
        if not any(abs((r.distance >> P.Unit.Yard) - R) < 1e-6 for r in tr):
            missing.append(R)
    return result('bounded:tail-wind', [mk('tail-wind-row-at-the-requested-range-present', not missing,
                  '800 fps load with a 64 fps tail wind, range = step = 321..328 yd: a row at the requested range is present',
                  cases, t0, f'no row at the requested range for R = {missing} yd' if missing else None)], t0, props=('C03',))


def bounded_step_exceeds_range(tier, seed):
    """RECORDED FINDING C03-step-exceeds-range: the 'at least two points' tail appends the terminal integration point,
    which is not a multiple of the step"""
    from pyvc.bounded import pkg, mk
    from pyvc.scan import result
    P = pkg()
    t0 = time.time()
    shot = P.Shot(P.Weapon(P.Unit.Inch(2), P.Unit.Inch(12)), P.Ammo(P.DragModel(0.3, P.TableG7), P.Unit.FPS(2700)))
    tr = P.Calculator().fire(shot, P.Unit.Yard(100), P.Unit.Yard(300)).trajectory
    ds = [r.distance >> P.Unit.Yard for r in tr]
    ok = all(abs(d / 300 - round(d / 300)) < 1e-9 for d in ds)
    return result('bounded:step-exceeds-range', [mk('step-larger-than-range-only-rows-at-multiples', ok,
                  'range 100 yd, step 300 yd: every row lies at a multiple of the step', 1, t0,
                  None if ok else f'rows at {ds} yd')], t0, props=('C03',))
