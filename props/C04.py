LEVEL = 'other'
EXPLANATION = 'C04 (under construction)'
EXTRA = []
