"""C04 - every call terminates, and an incomplete trajectory is reported truthfully."""
import time

from contracts.integrate_rt import rt_integrate  # noqa: F401

LEVEL = 'other'
EXPLANATION = ('The limits in force are the ones the caller configured: zero_angle and trajectory leave the calculator\'s '
               'configuration unchanged on normal AND exceptional exit (postconditions, every Config field), for a long-used '
               'calculator. Raise path of _integrate under contract (exc_ensures): the reason is the first violated limit in the order '
               'velocity, drop, altitude; the limits are those of this calculator\'s Config; the last row of the attached '
               'partial trajectory is the post-step state that violated it; last_distance is that row\'s distance; every '
               'state kept after a step is within all three limits (step clause + invariant); rows recorded before the stop '
               'do not depend on the limits (they are produced before the limit test of the step: frame/dep). The inner loop of '
               'should_record and the zero-finding loop have variants. Termination of the integration loop itself is a '
               'property of the nonlinear dynamics: bounded watchdog only.')
TEXT = ('proof of truthful range errors and in-limit rows; termination of the outer integration loop is bounded only '
        '(watchdog on adversarial shots), hence "other"')
NOT_DECIDED = ['termination of the integration loop (gravity must eventually win against an uninterpreted drag and wind): '
               'bounded watchdog only', 'speed limit on interpolated rows: only >= vmin cos(theta/2) is derivable']
EXTRA = ['bounded_watchdog', 'rt_integrate']


def bounded_watchdog(tier, seed):
    from pyvc.bounded import pkg, mk
    from pyvc.scan import result
    import signal
    P = pkg()
    t0 = time.time()
    bad = None
    cases = 0

    class TO(Exception):
        pass

    def alarm(*a):
        raise TO()
    old = signal.signal(signal.SIGALRM, alarm)
    try:
        for el, mv, cfg in ((90, 800, {}), (-90, 800, {}), (85, 50, {'cMinimumVelocity': 0}), (0, 0.0001, {}),
                            (45, 3000, {'cMinimumVelocity': 0, 'cMaximumDrop': -100}), (10, 2000, {'cMinimumAltitude': 0})):
            shot = P.Shot(P.Weapon(2, 12), P.Ammo(P.DragModel(0.3, P.TableG7), P.Unit.FPS(mv)), relative_angle=P.Unit.Degree(el))
            signal.alarm(25)
            try:
                try:
                    P.Calculator(_config=cfg).fire(shot, P.Unit.Yard(100000), P.Unit.Yard(10000))
                except P.RangeError as e:
                    last = e.incomplete_trajectory[-1]
                    if e.last_distance is not last.distance:
                        bad = f'last_distance is not the last row\'s distance (elevation {el})'
                cases += 1
            except TO:
                bad = f'no termination within 25 s: elevation {el} deg, mv {mv} fps, config {cfg}'
            finally:
                signal.alarm(0)
    finally:
        signal.signal(signal.SIGALRM, old)
    return result('bounded:watchdog', [mk('adversarial-shots-terminate', bad is None,
                  'vertical, downward, very slow and beyond-reach shots x limit configurations terminate within 25 s each',
                  cases, t0, bad)], t0, props=('C04',))
