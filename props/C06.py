LEVEL = 'proof'
EXPLANATION = 'C06 unit conversions'
EXTRA = []
