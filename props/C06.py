"""C06 - unit conversions agree with the SI definitions and invert exactly."""
LEVEL = 'proof'
EXPLANATION = ('to_raw / from_raw of all seven dimensions x every unit under contract against an independent SI table written '
               'from the definitions (exact inch, pound, grain, nautical mile, standard gravity, conventional mmHg, affine '
               'temperature scales, tangent maps for in/100yd and cm/100m; contracts/specfn.py SI): |factor - SI| <= 1e-6 '
               'relative, one instance per unit. Round trips and transitivity as harness functions over the real methods for '
               'every pair / triple of units of a dimension: unit->base->unit and base->unit->base are the identity, A->B->C = '
               'A->C (exact over the reals; the code multiplies and divides by the same literal). AbstractDimension.unit_value, '
               '>> and Unit.__call__: the reading follows the display unit and never changes the magnitude. tan/atan are '
               'uninterpreted with the inverse axiom atan(tan x) = x on (-pi/2, pi/2) (A-LIBM).')
NOT_DECIDED = ['"to within a few ulps" in binary64: the identities are proved over the reals (A-REAL); the floating-point error '
               'of one multiplication and one division is not machine-checked']
EXTRA = []
