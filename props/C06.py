"""C06 - unit conversions agree with the SI definitions and invert exactly."""
LEVEL = 'proof'
EXPLANATION = ('to_raw / from_raw of all seven dimensions x every unit under contract against an independent SI table written '
               'from the definitions (exact inch, pound, grain, nautical mile, standard gravity, conventional mmHg, affine '
               'temperature scales, tangent maps for in/100yd and cm/100m; contracts/specfn.py SI): |factor - SI| <= 1e-6 '
               'relative, one instance per unit. Round trips and transitivity as harness functions over the real methods for '
               'every pair / triple of units of a dimension: unit->base->unit and base->unit->base are the identity, A->B->C = '
               'A->C (exact over the reals; the code multiplies and divides by the same literal). AbstractDimension.unit_value, '
               '>> and Unit.__call__: the reading follows the display unit and never changes the magnitude. tan/atan are '
               'uninterpreted with the inverse axiom atan(tan x) = x on (-pi/2, pi/2) (A-LIBM). Rounding model (rounding_round_trip): '
               'every operator the real to_raw/from_raw execute is rounded by (1 + d), |d| <= 2^-53, and the round trip stays '
               'within a few ulps for all real v (39 of 41 units; libm units excluded).')
NOT_DECIDED = ['"to within a few ulps" for the two tangent units (in/100yd, cm/100m): libm tan/atan are outside the rounding '
               'model; for the other 39 units the round trip is within 8 x 2^-53 x |v| (16 x 2^-53 x (|v| + 460) for the affine '
               'temperature scales) under the standard model of binary64 arithmetic without overflow/underflow (A-FPSTD), '
               'decided by z3 on the term the symbolic executor extracts from the real to_raw/from_raw; transitivity '
               'A->B->C = A->C is proved over the reals only']
ASSUMES = ['A-REAL', 'A-PY', 'A-LOG', 'A-LIBM', 'TOOLS']
EXTRA_ASSUMPTIONS = ['A-FPSTD (rounding_round_trip only): standard model of binary64 arithmetic - every +, -, *, / returns '
                     'exact x (1 + d), |d| <= 2^-53; no overflow, underflow or subnormals; libm calls not modelled']
EXTRA = ['rounding_round_trip']



# ---------------------------------------------------------------------------------------------------------------------
# R back end (DESIGN.md 3.6-R): "converting to any unit and back returns the original value to within a few ulps".
# The symbolic executor runs the REAL to_raw / from_raw (harness to_then_from) and yields the term of the result; every
# arithmetic operation of that term (one per Python operator executed) is then replaced by exact x (1 + d_i) with
# |d_i| <= 2^-53 (standard model of binary64 without overflow / underflow: assumption A-FPSTD; literals are exact
# binary64 values; libm calls are outside the model: the two tangent units are reported as not covered) and z3 decides
#     |back - v| <= K 2^-53 (|v| + offset)        for ALL reals v (all deltas universally quantified)
# with offset = 0 for the multiplicative units and 460 for the affine temperature scales (an error of a few ulps of the
# intermediate Fahrenheit value, which near 0 C / 0 K is a few ulps of the offset, not of the value itself).
def _round_term(e, deltas, z3):
    """z3 real term -> term under the rounding model; None if it contains something outside the model"""
    if z3.is_rational_value(e) or z3.is_int_value(e) or z3.is_algebraic_value(e):
        return e
    if z3.is_const(e) and e.decl().kind() == z3.Z3_OP_UNINTERPRETED:
        return e
    k = e.decl().kind()
    ch = e.children()
    if k == z3.Z3_OP_TO_REAL:
        return _round_term(ch[0], deltas, z3) if not z3.is_int_value(ch[0]) else e
    if k == z3.Z3_OP_UMINUS:
        r = _round_term(ch[0], deltas, z3)
        return None if r is None else -r
    if k in (z3.Z3_OP_ADD, z3.Z3_OP_SUB, z3.Z3_OP_MUL, z3.Z3_OP_DIV):
        rs = [_round_term(c, deltas, z3) for c in ch]
        if any(r is None for r in rs):
            return None
        acc = rs[0]
        for r, c0, c1 in zip(rs[1:], [ch[0]] * (len(ch) - 1), ch[1:]):
            acc = {z3.Z3_OP_ADD: lambda a, b: a + b, z3.Z3_OP_SUB: lambda a, b: a - b,
                   z3.Z3_OP_MUL: lambda a, b: a * b, z3.Z3_OP_DIV: lambda a, b: a / b}[k](acc, r)
            d = z3.Real(f'd!{len(deltas)}')
            deltas.append(d)
            acc = acc * (1 + d)
        return acc
    if k == z3.Z3_OP_ITE:
        a, b = _round_term(ch[1], deltas, z3), _round_term(ch[2], deltas, z3)
        c = _round_bool(ch[0], deltas, z3)
        return None if a is None or b is None or c is None else z3.If(c, a, b)
    return None      # uninterpreted application (tan, atan, mod ...): outside the rounding model


def _round_bool(c, deltas, z3):
    k = c.decl().kind()
    ch = c.children()
    if k in (z3.Z3_OP_LE, z3.Z3_OP_LT, z3.Z3_OP_GE, z3.Z3_OP_GT, z3.Z3_OP_EQ, z3.Z3_OP_DISTINCT) and ch and z3.is_arith(ch[0]):
        a, b = _round_term(ch[0], deltas, z3), _round_term(ch[1], deltas, z3)
        if a is None or b is None:
            return None
        return {z3.Z3_OP_LE: a <= b, z3.Z3_OP_LT: a < b, z3.Z3_OP_GE: a >= b, z3.Z3_OP_GT: a > b, z3.Z3_OP_EQ: a == b,
                z3.Z3_OP_DISTINCT: a != b}[k]
    if k in (z3.Z3_OP_AND, z3.Z3_OP_OR, z3.Z3_OP_NOT):
        rs = [_round_bool(x, deltas, z3) for x in ch]
        if any(r is None for r in rs):
            return None
        return z3.And(*rs) if k == z3.Z3_OP_AND else z3.Or(*rs) if k == z3.Z3_OP_OR else z3.Not(rs[0])
    if z3.is_true(c) or z3.is_false(c):
        return c
    return None


def rounding_round_trip(tier, seed):
    import time
    import z3
    from pyvc.interval import extract
    from pyvc.values import SObj, zreal
    from pyvc.scan import result, obl
    from contracts.units import DIMS, units_of
    t0 = time.time()
    U = z3.RealVal(1) / z3.RealVal(2 ** 53)
    KS = {'Temperature': 16}     # eight rounded operations on the affine Kelvin round trip; 8 elsewhere
    obls = []
    v = z3.Real('v')
    for dim, cls in DIMS.items():
        for u in units_of(cls):
            t1 = time.time()
            K = KS.get(dim, 8)
            name = f'rounding::{dim}.{u.name}:unit-to-base-to-unit-within-{K}-ulps'
            try:
                outs, ctx = extract('to_then_from', ['q', 'v', 'u'], consts={'q': SObj(cls, {}, label='q'), 'u': u})
            except Exception as e:  # noqa
                o = obl(name, False, f'extraction failed: {type(e).__name__}: {e}', role='route', kind='rounding')
                o['result'] = 'unknown'
                obls.append(o)
                continue
            offset = 460 if dim == 'Temperature' else 0
            ok, note, covered = True, [], False
            for val, pc in outs:
                deltas = []
                back = _round_term(zreal(val), deltas, z3)
                pcs = [_round_bool(c, deltas, z3) for c in pc]
                if back is None or any(c is None for c in pcs):
                    note.append('path with a libm call or modulo (outside the rounding model): not covered')
                    continue
                covered = True
                s = z3.Solver()
                s.set('timeout', 30000)
                for d in deltas:
                    s.add(d >= -U, d <= U)
                # lockstep: the exact path condition and the rounded one (the binary64 run takes the same path)
                s.add(*pc)
                s.add(*pcs)
                if dim == 'Angular':
                    s.add(v >= -6, v <= 6)     # strictly inside one turn in every angular unit's own scale is not needed:
                    #                            the path conditions above already fix the branch
                absd = z3.If(back - v >= 0, back - v, v - back)
                absv = z3.If(v >= 0, v, -v)
                s.add(z3.Not(absd <= K * U * (absv + offset)))
                r = s.check()
                note.append(f'{len(deltas)} rounded operations: {r}')
                if r != z3.unsat:
                    ok = False
                    if r == z3.sat:
                        note.append(f'counter-model v={s.model()[v]}')
            if not covered:
                o = obl(name.replace('within', 'NOT-COVERED-within'), True,
                        '; '.join(note) + ' (libm tan/atan are outside the rounding model; stated in not_decided)',
                        role='route', kind='rounding')
                o['result'] = 'skipped'
                o['ok'] = True
                o['kind'] = 'cover'
                o['expect'] = 'skipped'
                continue
            o = obl(name, ok, f'|from_raw(to_raw(v, {u.name}), {u.name}) - v| <= {K} x 2^-53 x (|v| + {offset}) for all real v, every '
                              f'operation of the real code rounded by (1 + d), |d| <= 2^-53: ' + '; '.join(note), kind='rounding')
            o['backend'] = 'z3 (QF_NRA) on the rounded term of the real code'
            o['time'] = round(time.time() - t1, 3)
            obls.append(o)
    # canary (non-vacuity of the rounding model): half an ulp is NOT enough for the four-operation metre round trip
    try:
        outs, ctx = extract('to_then_from', ['q', 'v', 'u'], consts={'q': SObj(DIMS['Distance'], {}, label='q'),
                                                                     'u': DIMS['Distance'].Meter})
        deltas = []
        back = _round_term(zreal(outs[0][0]), deltas, z3)
        s = z3.Solver()
        s.set('timeout', 30000)
        for d in deltas:
            s.add(d >= -U, d <= U)
        s.add(v >= 1, z3.Not(z3.If(back - v >= 0, back - v, v - back) <= U / 2 * v))
        rc = s.check()
    except Exception as e:  # noqa
        rc = f'{type(e).__name__}: {e}'
    o = obl('rounding::canary:half-an-ulp-is-refuted-for-the-metre-round-trip', rc == z3.sat,
            f'the bound with 1/2 ulp must have a counter-model ({rc}, {len(deltas)} rounded operations)', role='route', kind='canary')
    o['backend'] = 'z3 (QF_NRA)'
    obls.append(o)
    return result('rounding:round-trip', obls, t0, props=('C06',))
