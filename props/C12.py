"""C12 - wind acts by segment, in order of distance, symmetrically and causally."""
import time

from contracts.integrate_rt import rt_integrate  # noqa: F401

LEVEL = 'proof'
EXPLANATION = ('Shot.winds: the result is a permutation of the given winds ordered by until-distance (1-, 2-, 3-wind instances '
               'with the permutation explicit; any length: sorted + every until-distance is a given one; sorted() is trusted to '
               'be a stable sorting permutation), the given list is not re-ordered (frame). Wind.vector: components from speed '
               'and direction, zero speed = zero vector, wind from the left pushes to the right (+z), from behind down-range. '
               '_WindSock.__init__ / vector_for_range under contract with loop invariant and variant: the index is in range, '
               'inside a segment its end and its wind vector are the cached ones, beyond the last segment the wind is zero, '
               'every segment ending at or before the query has been left (the lag repaired in ee1d162 is this clause) and no '
               'segment beginning beyond the query is in force (causality). _integrate: invariant "the wind in force is the '
               'cached one of the segment containing the current distance" + step clause for every iteration; an empty list '
               'behaves as no wind (Shot.__init__ / _WindSock with zero winds: zero vector). Mirror symmetry: the step clauses '
               'of _integrate (proved for every iteration) are equalities in which wind enters only through the air-relative '
               'velocity v - w; lemma_mirror_step shows for the step map so specified (retardation an uninterpreted function of '
               'altitude and air speed) that mirroring v.z, w.z, p.z negates the z-components of the next state and leaves the '
               'x, y, t components unchanged.')
TEXT = ('segment selection, ordering, causality, zero-wind and the sign of the wind vector are proved; mirror symmetry and '
        'head/tail-wind senses over a WHOLE trajectory are induction corollaries exercised by a bounded stand-in')
NOT_DECIDED = ['"head and tail winds change drop and time of flight in opposite senses" is a monotonicity statement about the '
               'integrated nonlinear dynamics (drag is an uninterpreted function): bounded only',
               'whole-trajectory mirror symmetry / causality: per-step clauses proved, induction over steps bounded']
EXTRA = ['lemma_mirror_step', 'bounded_wind_relations', 'rt_integrate']


def lemma_mirror_step(tier, seed):
    """the step map of the _integrate step clauses (time-advances..., velocity-changes..., position-changes...) commutes
    with the left-right mirror (z -> -z of position, velocity and wind)"""
    import z3
    from pyvc.scan import result, obl
    t0 = time.time()
    R = z3.Real
    vx, vy, vz, wx, wy, wz, px, py, pz, g, h = (R(n) for n in 'vx vy vz wx wy wz px py pz g h'.split())
    sqrt = z3.Function('sqrt', z3.RealSort(), z3.RealSort())
    ret = z3.Function('retardation', z3.RealSort(), z3.RealSort(), z3.RealSort())     # (altitude, air speed)

    def step(vx, vy, vz, wx, wy, wz, px, py, pz):
        sig = sqrt((vx - wx) * (vx - wx) + (vy - wy) * (vy - wy) + (vz - wz) * (vz - wz))
        dt = h / z3.If(sig >= 1, sig, 1)
        r = ret(py, sig)
        nvx = vx - ((vx - wx) * r) * dt
        nvy = vy - ((vy - wy) * r - g) * dt
        nvz = vz - ((vz - wz) * r) * dt
        return dt, nvx, nvy, nvz, px + nvx * dt, py + nvy * dt, pz + nvz * dt
    a = step(vx, vy, vz, wx, wy, wz, px, py, pz)
    b = step(vx, vy, -vz, wx, wy, -wz, px, py, -pz)
    goal = z3.And(a[0] == b[0], a[1] == b[1], a[2] == b[2], a[3] == -b[3], a[4] == b[4], a[5] == b[5], a[6] == -b[6])
    s = z3.Solver()
    s.set('timeout', 20000)
    # polynomial identity (-a + b)^2 = (a - b)^2 under the uninterpreted sqrt: give the solver the congruence instance
    s.add((-vz + wz) * (-vz + wz) == (vz - wz) * (vz - wz))
    s.add(z3.Not(goal))
    r = s.check()
    o = obl('lemma::mirrored-wind-and-lateral-state-give-the-mirrored-next-state', r == z3.unsat,
            f'step map of the step clauses commutes with z -> -z ({r}); retardation and sqrt uninterpreted', kind='lemma')
    o['backend'] = 'z3'
    o['result'] = 'unsat' if r == z3.unsat else ('unknown' if r == z3.unknown else 'sat')
    o['time'] = round(time.time() - t0, 3)
    return result('lemma:mirror-step', [o], t0, props=('C12',))


def bounded_wind_relations(tier, seed):
    import random
    from pyvc.bounded import pkg, mk
    from pyvc.scan import result
    P = pkg()
    rng = random.Random(1200 + seed)
    t0 = time.time()
    bad = None
    cases = 0

    def shot(winds):
        # no twist: no spin drift, so windage is the lateral position alone
        return P.Shot(P.Weapon(P.Unit.Inch(2), 0), P.Ammo(P.DragModel(0.3, P.TableG7), P.Unit.FPS(2600)), winds=winds)

    def fire(winds):
        return P.Calculator().fire(shot(winds), P.Unit.Yard(500), P.Unit.Yard(50)).trajectory

    def cols(r, skip_w=False):
        c = [r.time, r.distance >> P.Unit.Foot, r.velocity >> P.Unit.FPS, r.height >> P.Unit.Foot, r.mach]
        return c if skip_w else c + [r.windage >> P.Unit.Foot]

    def close(a, b, tol=1e-9):
        return all(abs(x - y) <= tol * max(1.0, abs(x), abs(y)) for x, y in zip(a, b))
    for k in range(3 if tier == 'quick' else 10):
        segs = [(rng.uniform(2, 20), rng.uniform(0, 360), d) for d in (120, 260, None)]
        mk_w = lambda sg, sign=1: [P.Wind(P.Unit.MPH(v), P.Unit.Degree(sign * a), P.Unit.Yard(d) if d else None) for v, a, d in sg]  # noqa
        base = fire(mk_w(segs))
        # order given does not matter
        cases += 1
        if not all(close(cols(a), cols(b), 0) for a, b in zip(base, fire(list(reversed(mk_w(segs)))))):
            bad = 'the order in which the winds are given changes the result'
        # mirror
        cases += 1
        mir = fire(mk_w(segs, -1))
        for a, b in zip(base, mir):
            if not close(cols(a, True), cols(b, True)) or abs((a.windage >> P.Unit.Foot) + (b.windage >> P.Unit.Foot)) > 1e-9:
                bad = f'mirroring the wind directions: row at {a.distance} not mirrored'
        # causality: change the segments beginning beyond 260 yd, rows up to 250 yd unchanged
        cases += 1
        seg2 = segs[:2] + [(segs[2][0] + 7, segs[2][1] + 50, None)]
        for a, b in zip(base, fire(mk_w(seg2))):
            if (a.distance >> P.Unit.Yard) <= 255 and not close(cols(a), cols(b), 0):
                bad = f'changing a segment beginning at 260 yd changed the row at {a.distance}'
        # adding a zero-speed tail segment / zero wind = none
        cases += 1
        if not all(close(cols(a), cols(b), 0) for a, b in zip(fire([]), fire([P.Wind(P.Unit.MPH(0), P.Unit.Degree(77))]))):
            bad = 'a zero-speed wind differs from no wind'
    # senses
    cases += 1
    none, left = fire([]), fire([P.Wind(P.Unit.MPH(10), P.Unit.Degree(90))])
    tail, headw = fire([P.Wind(P.Unit.MPH(20), P.Unit.Degree(0))]), fire([P.Wind(P.Unit.MPH(20), P.Unit.Degree(180))])
    if not (left[-1].windage >> P.Unit.Foot) > 0:
        bad = 'wind from the left does not deflect to the right'
    if not (tail[-1].time < none[-1].time < headw[-1].time):
        bad = 'head / tail wind do not change the time of flight in opposite senses'
    if not ((tail[-1].height >> P.Unit.Foot) > (none[-1].height >> P.Unit.Foot) > (headw[-1].height >> P.Unit.Foot)):
        bad = 'head / tail wind do not change the drop in opposite senses'
    return result('bounded:wind-relations', [mk('order-mirror-causality-zero-wind-and-senses', bad is None,
                  'three-segment random winds: given order irrelevant (bitwise), mirrored directions negate windage and keep '
                  'other columns (1e-9), segments beyond 260 yd do not change rows up to 250 yd (bitwise), zero-speed wind = no '
                  'wind (bitwise), left wind deflects right, head/tail winds change time and drop in opposite senses',
                  cases, t0, bad)], t0, props=('C12',))
