"""C14 - multi-BC drag models realise the interpolated BC and leave inputs intact."""
LEVEL = 'proof'
EXPLANATION = ('linear_interpolation under contract (two nested loops with invariants; result = clamped piecewise-linear '
               'interpolant of ascending nodes at every query point, opaque predicate pl_points_ok revealed where needed). '
               'DragModelMultiBC for 1 and 2 BC points in every given order (instances) and any table: the model keeps the '
               'table\'s Mach nodes, and at every node standard CD x model BC / model CD equals the interpolated BC of the given '
               'points (clamped outside); with a single point it equals the plain single-BC model. BCPoint.__init__: Mach given '
               'or velocity / standard sea-level speed of sound, exactly one of them, BC > 0. Frames: the table rows and the '
               'BC points passed in are not modified and the caller\'s list is not re-ordered (the in-place division and sort '
               'repaired in 2cdb449 are these frame obligations); make_data_points builds fresh points.')
import time  # noqa: E402

NOT_DECIDED = ['3 or more BC points, and two points together with a sectional-density model BC: the interpolation contract is '
               'for any number of nodes, but the constructor instances stop at 2 points (the sort is modelled per instance as '
               'an explicit permutation; one nonlinear step is left unknown by z3/cvc5 with sectional density): bounded stand-in']
EXTRA = ['bounded_multibc']


def bounded_multibc(tier, seed):
    """2-6 BC points in random order, by Mach or by velocity, with and without weight/diameter, on the shipped tables"""
    import copy
    import random
    from pyvc.bounded import pkg, mk
    from pyvc.scan import result
    P = pkg()
    from py_ballisticcalc.drag_model import BCPoint, DragModelMultiBC, make_data_points
    rng = random.Random(1400 + seed)
    t0 = time.time()
    bad = None
    cases = 0
    for k in range(12 if tier == 'quick' else 80):
        table = rng.choice([P.TableG1, P.TableG7, P.TableG2, P.TableRA4])
        n = rng.choice([1, 2, 3, 4, 6])
        machs = sorted(rng.sample([0.4, 0.7, 0.9, 1.0, 1.2, 1.6, 2.0, 2.5, 3.0, 4.0], n))
        bcs = [rng.uniform(0.15, 0.6) for _ in machs]
        if k % 4 == 1 and n >= 3:       # stepped curves: neighbouring points with the same BC (a flat band)
            j = rng.randrange(0, n - 1)
            bcs[j + 1] = bcs[j]
        pts = [BCPoint(b, Mach=m) if rng.random() < 0.5 else BCPoint(b, V=P.Unit.MPS(m * 340.0)) for b, m in zip(bcs, machs)]
        pm = sorted((p.Mach, p.BC) for p in pts)
        rng.shuffle(pts)
        wd = (P.Unit.Grain(168), P.Unit.Inch(0.308)) if k % 3 == 0 else (0, 0)
        table_before, pts_before = copy.deepcopy(table), [(p.BC, p.Mach) for p in pts]
        ids = [id(p) for p in pts]
        dm = DragModelMultiBC(pts, table, *wd)
        dm2 = DragModelMultiBC(pts, table, *wd)
        cases += 1
        if table != table_before or [(p.BC, p.Mach) for p in pts] != pts_before or [id(p) for p in pts] != ids:
            bad = f'case {k}: the table or the BC points passed in were modified / re-ordered'
        if [(p.Mach, p.CD) for p in dm.drag_table] != [(p.Mach, p.CD) for p in dm2.drag_table] or dm.BC != dm2.BC:
            bad = f'case {k}: building twice gives different models'
        std = make_data_points(table)
        for s, p in zip(std, dm.drag_table):
            m = s.Mach
            if m <= pm[0][0]:
                want = pm[0][1]
            elif m >= pm[-1][0]:
                want = pm[-1][1]
            else:
                j = max(i for i in range(len(pm)) if pm[i][0] <= m)
                (m0, b0), (m1, b1) = pm[j], pm[min(j + 1, len(pm) - 1)]
                want = b0 if m1 == m0 else b0 + (b1 - b0) * (m - m0) / (m1 - m0)
            eff = s.CD * dm.BC / p.CD
            if p.Mach != m or abs(eff - want) > 1e-9 * want:
                bad = f'case {k}: effective BC at Mach {m} is {eff}, interpolated BC of the points is {want} (points {pm})'
                break
        if n == 1 and wd == (0, 0):
            plain = P.DragModel(bcs[0], table)
            if any(abs(a.CD / dm.BC - b.CD / plain.BC) > 1e-12 * b.CD / plain.BC for a, b in zip(dm.drag_table, plain.drag_table)):
                bad = f'case {k}: single-point model differs from the plain single-BC model'
    return result('bounded:multibc', [mk('effective-bc-is-the-interpolant-inputs-intact-for-up-to-6-points', bad is None,
                  'random BC points (1-6, shuffled, by Mach or velocity, with/without sectional density) on shipped tables: '
                  'effective BC at every table node = clamped linear interpolant (1e-9), inputs untouched, rebuilt model equal, '
                  'single point = plain model', cases, t0, bad)], t0, props=('C14',))
