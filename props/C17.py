"""C17 - powder temperature sensitivity is linear, anchored and reproduces calibration."""
LEVEL = 'proof'
EXPLANATION = ('Ammo.get_velocity_for_temp: disabled -> the stated velocity at every temperature; enabled -> v0 (1 + modifier/100 '
               'x (T - T0)/15 C), hence v0 at T0 (contract, every path). Ammo.calc_powder_sens: the stored modifier makes '
               'get_velocity_for_temp return the second measurement, with separate clauses for the second measurement being '
               'faster and slower (the division by the lower velocity repaired in 01fcd2e failed the "slower" clause); equal '
               'velocities or temperatures raise ValueError. Bare numbers mean the preferred unit (harnesses '
               'powder_sens_bare_vs_quantity / velocity_for_temp_bare_vs_quantity under every preferred temperature and '
               'velocity unit). _init_trajectory harness: the launch velocity is get_velocity_for_temp(atmosphere powder '
               'temperature) when sensitivity is on, the stated velocity otherwise; Atmo: powder temperature defaults to the '
               'air temperature (C07/C08 contracts).')
NOT_DECIDED = []
EXTRA = []
