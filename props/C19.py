"""C19 - sight click counts are the angular correction divided by the click value."""
LEVEL = 'proof'
EXPLANATION = ('Sight.get_adjustment and get_trajectory_adjustment under contract for the three focal planes x display units of '
               'the click sizes (mil, inch/100yd, MOA, cm/100m) x display units of the calibration distance (yard, metre), any '
               'magnification, distance and correction: clicks x effective click = correction, separately for elevation and '
               'windage (so the count is linear in the correction and keeps its sign), with the effective click of the '
               'statement written as a specification function: nominal (FFP), nominal x calibration / target distance x '
               'magnification (SFP), nominal / magnification (LWIR) - in magnitudes, whatever the display units (the swapped '
               'SFP steps repaired in 5a6f70e and the display-unit leak repaired in 75441a9 failed these clauses). '
               'Sight.__init__: ValueError exactly for an unknown focal plane or SFP without calibration distance, TypeError '
               'exactly for missing or non-positive click sizes, otherwise the fields are stored; and, for whatever spellings a '
               'version of the constructor accepts, the state invariant "an existing sight has a known focal plane and an '
               'existing SFP sight has a positive calibration distance".')
NOT_DECIDED = ['click sizes larger than one turn are wrapped by Angular.to_raw (precondition: within a turn)']
EXTRA = []
