"""C13 - a quantity's magnitude is immutable and comparisons follow magnitude."""
import time

LEVEL = 'proof'
EXPLANATION = ('Every AbstractDimension method is under contract (comparisons by base-unit magnitude with quantities and '
               'numbers incl. reflected dispatch, hash a function of the magnitude only, convert/<</Unit.__call__ change '
               'only the display unit, get_in/unit_value functions of (magnitude, unit) only, foreign units raise '
               'UnitConversionError for all 7 dimensions x 41 units); a package-wide exhaustive ast scan shows _value '
               'is stored only by the constructor and the _new_* builders on fresh objects, so by induction on any '
               'sequence of operations the magnitude never changes.')
EXTRA = ['scan_value_stores']
NOT_DECIDED = ['"same value to a few ulps" under binary64 rounding (A-REAL): conversions are exact identities over the reals']


def scan_value_stores(tier, seed):
    """_value (the magnitude) is written only where a quantity is being created"""
    from pyvc.scan import attribute_stores, result, obl
    t0 = time.time()
    allowed = {('py_ballisticcalc/unit.py', 'AbstractDimension.__init__', 'self._value'),
               ('py_ballisticcalc/trajectory_calc/_trajectory_calc.py', '_new_feet', 'd._value'),
               ('py_ballisticcalc/trajectory_calc/_trajectory_calc.py', '_new_fps', 'd._value'),
               ('py_ballisticcalc/trajectory_calc/_trajectory_calc.py', '_new_rad', 'd._value'),
               ('py_ballisticcalc/trajectory_calc/_trajectory_calc.py', '_new_ft_lb', 'd._value'),
               ('py_ballisticcalc/trajectory_calc/_trajectory_calc.py', '_new_lb', 'd._value')}
    obls = []
    for rel, q, line, src in attribute_stores('_value'):
        if src.startswith(('setattr(', 'object.__setattr__(', 'delattr(')):
            continue    # dynamic stores are judged by the reflection rule below
        ok = (rel, q, src) in allowed
        obls.append(obl(f'scan::store-to-_value@{rel}:{q}:L{line}', ok,
                        f'{src} = ...  in {q} ({rel}:{line}); permitted only in the constructor and the _new_* builders '
                        f'(which write a fresh object: contracts _new_* in contracts/rows.py)', line=line))
    # reflection that could reach a magnitude
    for rel, q, line, src in attribute_stores(None):
        if src.startswith(('setattr(', 'object.__setattr__(', 'delattr(')):
            # setattr(PreferredUnits, attribute, ...) in PreferredUnits.set targets the settings class, never a quantity
            ok = rel == 'py_ballisticcalc/unit.py' and q == 'PreferredUnits.set' and src.startswith('setattr(PreferredUnits,')
            obls.append(obl(f'scan::reflection@{rel}:{q}:L{line}', ok, f'{src} in {q}', line=line))
    # the constructor is the one place that writes a magnitude: it must never be run on an object that already exists
    # (x.__init__(...) re-initialises x in place); super().__init__(...) inside a constructor is construction
    import ast
    from pyvc.scan import walk_package

    def on(rel, q, n):
        if isinstance(n, ast.Call) and isinstance(n.func, ast.Attribute) and n.func.attr in ('__init__', '__setstate__'):
            base = n.func.value
            is_super = isinstance(base, ast.Call) and isinstance(base.func, ast.Name) and base.func.id == 'super'
            ok = is_super and q.split('.')[-1] == '__init__'
            obls.append(obl(f'scan::re-initialisation@{rel}:{q}:L{n.lineno}', ok,
                            f'{ast.unparse(n)[:80]} in {q}: a constructor is called only to construct (super().__init__ inside '
                            f'__init__), never on an existing object', line=n.lineno))
        # writes through the attribute dictionary (reads, as in _validate_unit_type, are harmless)
        dict_write = (isinstance(n, ast.Subscript) and isinstance(n.ctx, (ast.Store, ast.Del)) and
                      isinstance(n.value, ast.Attribute) and n.value.attr == '__dict__') or \
                     (isinstance(n, ast.Call) and isinstance(n.func, ast.Attribute) and
                      n.func.attr in ('update', 'pop', 'clear', 'setdefault', '__setitem__', 'popitem') and
                      isinstance(n.func.value, ast.Attribute) and n.func.value.attr == '__dict__')
        if dict_write:
            obls.append(obl(f'scan::dict-write@{rel}:{q}:L{n.lineno}', False,
                            f'{ast.unparse(n)[:80]} in {q}: attribute dictionaries are not written directly', line=n.lineno))
    walk_package(on)
    if not obls:
        obls.append(obl('scan::no-store-found', False, 'the scan found no store to _value at all (scan broken?)'))
    return result('scan:stores-to-_value', obls, t0, props=('C13',))
