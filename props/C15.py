LEVEL = 'other'
EXPLANATION = 'C15 (under construction)'
EXTRA = []
