"""C15 - event rows mark each sight-line and sonic crossing once, within one step."""
import time

from contracts.integrate_rt import rt_integrate  # noqa: F401

LEVEL = 'proof'
EXPLANATION = ('_TrajectoryDataFilter.setup_seen_zero, check_zero_crossing, check_mach_crossing and should_record under contract '
               'for EVERY filter state and step: ZERO_UP is raised exactly at the first point on or above the sight line '
               'beyond the muzzle and only if no upward crossing was seen, ZERO_DOWN exactly at the first point below the line '
               'after the upward crossing, each remembered in seen_zero (monotone: flags only grow) so it is raised at most '
               'once; MACH exactly when the previous step\'s speed / local speed of sound was above 1 and this '
               'step\'s is at or below 1; a row is returned exactly when a '
               'requested flag is raised and event rows are the CURRENT integration state (so the flagged row is the first '
               'state after the event: within one integration step of it). History harnesses built with the real constructor: '
               'zero_flags_over_three_points, mach_flags_over_four_steps (no history can re-arm a consumed crossing; Mach '
               're-arms after the speed rose above 1 again). _integrate: the filter is fed every state in time order '
               '(filter-time-bookkeeping invariant), rows are appended in that order.')
TEXT = ('the per-step characterisation of every flag and the at-most-once memory are proved for all filter states; the two '
        'quantitative bounds (distance from the sight line <= one step x relative slope; Mach within one step\'s deceleration '
        'below 1) follow from "the flagged row is the first state after the event" + the step clauses and are additionally '
        'exercised by a bounded stand-in')
NOT_DECIDED = ['the quantitative within-one-step bounds as inequalities over a whole trajectory: derived on paper from the '
               'per-step clauses, bounded stand-in', 'time order of flagged rows among ALL rows: range rows are interpolated '
               'at an earlier time than the event row of the same step - order inside one step is checked by the bounded '
               'stand-in only']
EXTRA = ['bounded_event_rows', 'rt_integrate']


def bounded_event_rows(tier, seed):
    import math
    import random
    from pyvc.bounded import pkg, std_shot, mk
    from pyvc.scan import result
    P = pkg()
    rng = random.Random(1500 + seed)
    t0 = time.time()
    bad = None
    cases = 0
    F = P.TrajFlag
    for k in range(6 if tier == 'quick' else 18):
        look = [0.0, 0.0, 4.0, -3.0][k % 4]
        # every other shot has a head or tail wind: ground speed and air speed then differ at the sonic transition
        winds = [P.Wind(P.Unit.MPH(rng.uniform(10, 30)), P.Unit.Degree(rng.choice([0, 180])))] if k % 2 else None
        shot = std_shot(P, rng, look_deg=look, mv=rng.uniform(1800, 2600) if winds else rng.uniform(1500, 3000),
                        bc=rng.uniform(0.15, 0.3) if winds else rng.uniform(0.15, 0.5), table=P.TableG7, sh=rng.uniform(1.5, 3), winds=winds)
        calc = P.Calculator()
        try:
            calc.set_weapon_zero(shot, P.Unit.Yard(rng.choice([100, 200])))
            tr = calc.fire(shot, P.Unit.Yard(1200), P.Unit.Yard(5), extra_data=True).trajectory
        except P.RangeError as e:
            tr = e.incomplete_trajectory
        cases += 1
        ups = [r for r in tr if r.flag & F.ZERO_UP]
        downs = [r for r in tr if r.flag & F.ZERO_DOWN]
        machs = [r for r in tr if r.flag & F.MACH]
        # ground truth from the plain rows of the same result: sign changes of the distance to the sight line
        plain = [r for r in tr if r.flag & F.RANGE][1:]
        d = [r.target_drop >> P.Unit.Foot for r in plain]
        up_seen = any(a < 0 <= b for a, b in zip(d, d[1:])) or (d and d[0] >= 0 and (tr[0].target_drop >> P.Unit.Foot) < 0)
        down_seen = any(a >= 0 > b for a, b in zip(d, d[1:]))
        if up_seen and len(ups) != 1 or down_seen and len(downs) != 1 or len(ups) > 1 or len(downs) > 1:
            bad = (f'shot {k} (look {look}): {len(ups)} zero-up / {len(downs)} zero-down rows; the plain rows cross upward: '
                   f'{up_seen}, downward: {down_seen}')
            continue
        if not (ups and downs):
            continue
        if not ups[0].time < downs[0].time:
            bad = f'shot {k}: zero-down not after zero-up'
        for r in ups + downs:
            slope = abs(math.tan((r.angle >> P.Unit.Radian) - (shot.look_angle >> P.Unit.Radian)))
            # one integration step advances at most ~0.27 ft (0.25 ft through the air plus gravity); allow 0.5 ft
            if abs(r.target_drop >> P.Unit.Foot) > 0.5 * slope / max(0.2, math.cos(math.radians(look))) + 1e-6:
                bad = f'shot {k}: flagged crossing {abs(r.target_drop >> P.Unit.Foot):.5f} ft from the sight line (slope {slope:.5f})'
        crossed = tr[0].mach > 1 and tr[-1].mach < 1
        if crossed != (len(machs) >= 1) or len(machs) > 1:
            bad = f'shot {k}: {len(machs)} Mach rows, speed crossed: {crossed}'
        for r in machs:
            if not (0.999 < r.mach <= 1.0):
                bad = f'shot {k}: Mach row at Mach {r.mach}'
        if any(b.time < a.time for a, b in zip(tr, tr[1:])):
            bad = f'shot {k}: rows not in time order'
    return result('bounded:event-rows', [mk('one-zero-up-one-zero-down-one-mach-row-within-a-step-in-time-order', bad is None,
                  'zeroed shots (level and inclined sight lines) to 1200 yd with extra data, 5-yd rows as ground truth: one ZERO_UP / '
                  'ZERO_DOWN row whenever the plain rows change sign (never more than one), each within half a foot x relative slope of the sight line; one MACH row iff the speed fell '
                  'through Mach 1, at 0.999 < Mach <= 1; all rows in time order', cases, t0, bad)], t0, props=('C15',))
