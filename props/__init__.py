"""Per-property composition: which contracts / extra checks decide which property."""
