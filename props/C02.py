"""C02 - zeroing returns an elevation that actually hits the point of aim."""
import time

LEVEL = 'other'
EXPLANATION = ('TrajectoryCalc.zero_angle under contract with a loop invariant and variant (cMaxIterations - iterations): a '
               'normal return implies that the height measured by the LAST run, made with the returned elevation, is within '
               'cZeroFindingAccuracy of the aim height (the run is abstracted by an uninterpreted function of the elevation: '
               'assumed determinism of _integrate, itself frame-verified); otherwise ZeroFindingError/RangeError is raised; '
               'frames: zero_angle and barrel_elevation_for_target modify only the calculator, set_weapon_zero writes '
               'weapon.zero_elevation and only on normal return. "Does not fail for reachable targets" is a convergence '
               'statement about the fixed-point iteration: bounded stand-in, which reproduces the recorded finding for '
               'inclined sight lines.')
TEXT = ('proof of: returned angle = angle of the last measured run, accuracy met or error raised, failed attempt leaves the '
        'stored zero untouched (frames incl. exceptional exits), termination of the zero-finding loop; the non-failure / '
        'miss-distance clause is bounded only and has a recorded finding - hence "other"')
NOTE = ('A-REAL, A-PY, A-LOG, A-LIBM; assumed: the zeroing run height is a function of (elevation, range) for a fixed shot '
        '(determinism of _integrate, which is verified to modify nothing); trusted: z3, cvc5, ast, VC generator')
NOT_DECIDED = ['zeroing does not fail for reachable targets (convergence of theta <- theta - dh/X0): bounded',
               'miss distance <= accuracy + one step x relative slope for inclined sight lines: bounded, KNOWN FINDING']
EXTRA_ASSUMPTIONS = ['the single row returned by _integrate(shot, R, R, NONE) is a function of the barrel elevation and R '
                     '(uninterpreted function zero_run_height); justified by the frame clause modifies=[] of _integrate and '
                     'the absence of random/time sources, not machine-checked']
EXTRA = ['bounded_zero_level', 'bounded_zero_out_of_reach', 'bounded_zero_inclined', 'bounded_zero_history']


def _miss(P, calc, shot, dist_yd):
    el = calc.set_weapon_zero(shot, P.Unit.Yard(dist_yd))
    tr = calc.fire(shot, P.Unit.Yard(dist_yd * 1.2 + 10), P.Unit.Yard(dist_yd), extra_data=False).trajectory
    import math
    look = shot.look_angle >> P.Unit.Radian
    # row nearest the aim point's horizontal distance
    x_aim = math.cos(look) * dist_yd * 3
    row = min(tr, key=lambda r: abs((r.distance >> P.Unit.Foot) - x_aim))
    return abs(row.target_drop >> P.Unit.Foot), row


def bounded_zero_level(tier, seed):
    import random
    from pyvc.bounded import pkg, std_shot, mk
    from pyvc.scan import result
    P = pkg()
    rng = random.Random(3000 + seed)
    t0 = time.time()
    bad = None
    cases = 0
    for k in range(6 if tier == 'quick' else 40):
        d = rng.choice([50, 100, 200, 300, 500])
        # range-dependent winds: segments ending before the zero distance, head and tail components
        winds = [P.Wind(P.Unit.MPH(rng.uniform(5, 20)), P.Unit.Degree(rng.choice([0, 180, 135])), P.Unit.Yard(d * rng.uniform(0.2, 0.6))),
                 P.Wind(P.Unit.MPH(rng.uniform(5, 20)), P.Unit.Degree(rng.choice([180, 0, 45])))]
        shot = std_shot(P, rng, look_deg=0.0, winds=winds if k % 2 == 0 else [P.Wind(P.Unit.MPH(rng.uniform(0, 10)), P.Unit.Degree(rng.uniform(0, 360)))])
        calc = P.Calculator()
        try:
            m, row = _miss(P, calc, shot, d)
        except Exception as e:  # noqa
            bad = f'level sight line, zero {d} yd: {type(e).__name__}: {e}'
            continue
        cases += 1
        # the zero-finder measures the height at the terminal integration point, which lies up to calc_step + one
        # advance (2 x 0.25 ft) beyond the aim point: allowed miss = accuracy + 0.6 ft x slope relative to the sight line
        import math
        slope = abs(math.tan((row.angle >> P.Unit.Radian) - (shot.look_angle >> P.Unit.Radian)))
        if m > 5e-6 + 0.6 * slope + 1e-4:
            bad = f'level sight line, zero {d} yd: miss {m} ft (slope {slope})'
    return result('bounded:zero-level', [mk('level-sight-line-zero-hits-the-aim-point', bad is None,
                  'set_weapon_zero then fire: |target_drop| at the zero distance (level sight lines, sampled loads and winds)',
                  cases, t0, bad)], t0, props=('C02',))


def bounded_zero_history(tier, seed):
    """history on ONE long-used calculator: zero a shot, change one thing only (wind, humidity, temperature, or a fresh
    Shot with equal parameters and another wind) and zero again - the second zero must hit as well"""
    import random
    import math
    from pyvc.bounded import pkg, std_shot, mk
    from pyvc.scan import result
    P = pkg()
    rng = random.Random(3500 + seed)
    t0 = time.time()
    bad = None
    cases = 0
    calc = P.Calculator()
    for k in range(6 if tier == 'quick' else 30):
        d = rng.choice([100, 200, 300, 500, 800])
        state = rng.getstate()
        shot = std_shot(P, rng, look_deg=0.0, winds=[P.Wind(P.Unit.MPH(0), P.Unit.Degree(0))])
        try:
            _miss(P, calc, shot, d)
            kind = k % 4
            if kind == 0:
                shot.winds = [P.Wind(P.Unit.MPH(rng.uniform(10, 25)), P.Unit.Degree(rng.choice([0, 180])))]
            elif kind == 1:
                rng2 = random.Random()
                rng2.setstate(state)
                shot = std_shot(P, rng2, look_deg=0.0,
                                winds=[P.Wind(P.Unit.MPH(rng.uniform(10, 25)), P.Unit.Degree(rng.choice([0, 180])))])
            elif kind == 2:
                shot.atmo.humidity = 90
                shot.winds = [P.Wind(P.Unit.MPH(20), P.Unit.Degree(0), P.Unit.Yard(d / 2)), P.Wind(P.Unit.MPH(20), P.Unit.Degree(180))]
            else:
                shot.atmo = P.Atmo(altitude=P.Unit.Foot(6000), pressure=P.Unit.InHg(23.0), temperature=P.Unit.Fahrenheit(95))
            m, row = _miss(P, calc, shot, d)
        except Exception as e:  # noqa
            bad = f'history case #{k} (zero {d} yd): {type(e).__name__}: {e}'
            continue
        cases += 1
        slope = abs(math.tan((row.angle >> P.Unit.Radian) - (shot.look_angle >> P.Unit.Radian)))
        if m > 5e-6 + 0.6 * slope + 1e-4:
            bad = (f'same calculator, zero {d} yd, then only {["the wind", "a fresh equal Shot with another wind", "humidity and winds", "the atmosphere"][k % 4]} '
                   f'changed and zeroed again: miss {m} ft (slope {slope})')
    return result('bounded:zero-history', [mk('zeroing-again-on-a-used-calculator-after-one-change-still-hits', bad is None,
                  'set_weapon_zero, change one thing, set_weapon_zero, fire: |target_drop| at the zero distance',
                  cases, t0, bad)], t0, props=('C02', 'C10'))


def bounded_zero_inclined(tier, seed):
    """inclined sight lines: RECORDED FINDING (known_findings.json C02-inclined): the zero-finder compares the height at
    the overshoot abscissa with the aim height at the exact abscissa and its iteration gain is 1/cos^2"""
    from pyvc.bounded import pkg, mk
    from pyvc.scan import result
    import random
    P = pkg()
    rng = random.Random(3500 + seed)
    t0 = time.time()
    worst = 0.0
    fails = 0
    cases = 0
    for look in (5, 10, -10, 20):
        from pyvc.bounded import std_shot
        shot = std_shot(P, rng, look_deg=look, mv=2700, bc=0.3, table=P.TableG7, sh=2)
        try:
            m, row = _miss(P, P.Calculator(), shot, 300)
            worst = max(worst, m)
            cases += 1
        except Exception:  # noqa
            fails += 1
    ok = not (worst > 5e-6 + 0.01 or fails > 0)
    o = mk('inclined-sight-line-zero-hits-the-aim-point', ok,
           'set_weapon_zero then fire on inclined sight lines (5, 10, -10, 20 deg at 300 yd): |target_drop| at the zero '
           'look-distance within accuracy + interpolation', cases, t0, f'worst miss {worst:.4f} ft, {fails} failed to converge')
    return result('bounded:zero-inclined', [o], t0, props=('C02',))


def bounded_zero_out_of_reach(tier, seed):
    """targets at and beyond the projectile's reach on a level sight line: zeroing either raises, or the angle it returns
    (and stores) really hits within the accuracy - it never returns an angle that misses"""
    from pyvc.bounded import pkg, mk
    from pyvc.scan import result
    P = pkg()
    t0 = time.time()
    bad = None
    cases = 0
    plan = [(0.02, 900, 0, d) for d in (300, 340, 380, 390, 400, 450)] + [(0.15, 1050, 8000, d) for d in (1800, 2200, 2600)]
    for bc, mv, alt, d in plan:
        shot = P.Shot(P.Weapon(P.Unit.Inch(2), 0), P.Ammo(P.DragModel(bc, P.TableG1), P.Unit.FPS(mv)),
                      atmo=P.Atmo.icao(P.Unit.Foot(alt)))
        calc = P.Calculator()
        before = shot.weapon.zero_elevation.raw_value
        cases += 1
        try:
            el = calc.set_weapon_zero(shot, P.Unit.Yard(d))
        except (P.ZeroFindingError, P.RangeError):
            if shot.weapon.zero_elevation.raw_value != before:
                bad = f'BC {bc}, {mv} fps, {d} yd: zeroing raised but the stored zero changed'
            continue
        try:
            tr = calc.fire(shot, P.Unit.Yard(d), P.Unit.Yard(d)).trajectory
            row = min(tr, key=lambda r: abs((r.distance >> P.Unit.Yard) - d))
            miss = abs(row.target_drop >> P.Unit.Foot) if abs((row.distance >> P.Unit.Yard) - d) < 0.5 else float('inf')
        except P.RangeError:
            miss = float('inf')
        import math
        slope = abs(math.tan(row.angle >> P.Unit.Radian)) if miss != float('inf') else 0.0
        if miss > 5e-6 + 0.6 * slope + 1e-4:
            bad = (f'BC {bc}, {mv} fps at {alt} ft, zero at {d} yd: zeroing returned {el} (no error) but the shot fired with it '
                   f'misses the aim point by {miss} ft')
    return result('bounded:zero-out-of-reach', [mk('a-returned-zero-hits-or-zeroing-raises', bad is None,
                  'light pellet (G1 0.02, 900 fps) at 300-450 yd and a slow bullet at 8000 ft at 1800-2600 yd, level sight line: '
                  'set_weapon_zero raises (stored zero untouched) or the returned angle hits within accuracy + one step x slope',
                  cases, t0, bad)], t0, props=('C02',))
