LEVEL = 'other'
EXPLANATION = 'C02 (under construction)'
EXTRA = []
